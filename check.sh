#!/bin/sh
# usage: check.sh <property> <quick|thorough>
# Rebuilds the verification conditions from /repo's current working tree on every run.
cd "$(dirname "$0")"
export GOFLAGS=-mod=mod GOPROXY=off GOSUMDB=off GOTOOLCHAIN=local
if [ ! -x bin/sodvc ]; then ./setup.sh >/dev/null || exit 2; fi
exec ./bin/sodvc check -prop "$1" -tier "${2:-quick}" -repo "${SOD_REPO:-/repo}" -verif "$(pwd)"
