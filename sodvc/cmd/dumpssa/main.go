package main

import (
	"fmt"
	"os"
	"sort"

	"golang.org/x/tools/go/packages"
	"golang.org/x/tools/go/ssa"
	"golang.org/x/tools/go/ssa/ssautil"
)

func main() {
	cfg := &packages.Config{Mode: packages.LoadAllSyntax, Dir: "/repo", BuildFlags: []string{"-tags=verif"}}
	pkgs, err := packages.Load(cfg, ".")
	if err != nil {
		panic(err)
	}
	prog, spkgs := ssautil.AllPackages(pkgs, ssa.InstantiateGenerics|ssa.GlobalDebug)
	prog.Build()
	p := spkgs[0]
	want := map[string]bool{}
	for _, a := range os.Args[1:] {
		want[a] = true
	}
	var fns []*ssa.Function
	for fn := range ssautil.AllFunctions(prog) {
		if fn.Pkg == p {
			fns = append(fns, fn)
		}
	}
	sort.Slice(fns, func(i, j int) bool { return fns[i].String() < fns[j].String() })
	for _, fn := range fns {
		if len(want) == 0 {
			fmt.Println(fn.String(), "|", fn.RelString(p.Pkg))
			continue
		}
		if want[fn.RelString(p.Pkg)] {
			fn.WriteTo(os.Stdout)
		}
	}
}
