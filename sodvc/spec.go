package main

import (
	"bufio"
	"fmt"
	"os"
	"regexp"
	"strconv"
	"strings"
)

// Clause is one requires/ensures/invariant/... clause.
type Clause struct {
	Label string   // e.g. "bisect.split"
	Props []string // properties named in the label, e.g. C02
	Expr  string   // Go-syntax expression
	Src   string   // file:line
}

type GhostOut struct {
	Name string
	Type string
	Expr string // evaluated at return with the source-name environment; "" = unconstrained
}

// AtExit is a definitional ghost update performed at every return:
// target[var] := expr(var)
type AtExit struct {
	Target string // e.g. in.pos
	Var    string
	Expr   string
	Src    string
}

// LoopGhost is loop-carried ghost state: havocked with the loop, constrained by
// the invariants, updated definitionally at every back edge.
type LoopGhost struct {
	Name string
	Type string
	Init string // expression at loop entry ("" = unconstrained)
	Var  string // update: name[var] := Upd (ghost arrays) ; Var == "" : name := Upd
	Upd  string
	Src  string
}

type LoopSpec struct {
	Cut        bool     // cut point: the body and what follows are verified once, from the invariants alone
	Snaps      []string // named snapshots of the heap taken at loop entry
	Ghosts     []*LoopGhost
	Lets       []GhostOut
	Invariants []Clause
	Decreases  []Clause
	Modifies   []string
	HasMod     bool
}

// Contract of one function.
type Contract struct {
	Target    string // SSA name relative to the package, or full name for externs / iface methods
	Kind      string // func | extern | iface
	Serves    []string
	Theory    string // abstract | concrete | ""
	Requires  []Clause
	Ensures   []Clause
	Lemmas    []Clause // post-conditions assumed without proof (pencil-and-paper lemma), listed as assumptions
	Assumes   []Clause // assumed at entry when verifying (listed in assumptions), NOT required from callers
	Modifies  []string
	HasMod    bool
	Allocates []string // components changed only at references allocated during the call
	CallHints map[string][]Clause // callee -> facts proved (and then assumed) just before each call of it
	AtExit    []AtExit
	Decreases []Clause
	Loops     map[int]*LoopSpec
	Ghosts    []GhostOut
	Inline    bool
	Trusted   string // non-empty: body not verified, contract assumed
	MayPanic  string
	NoBody    bool // verify nothing about body (used with trusted)
	Pure      bool
	Src       string
	Lets      []GhostOut // named abbreviations: evaluated at entry (pre-state)
	Skips     []string   // obligation kinds not generated (with reason recorded)
	DeadRets  map[int]string // return statements (ordinal in source order) declared unreachable, with the reason
	SkipWhy   string
	Params    []string // for extern/iface: parameter names (self first for methods)
	Results   []string // for extern/iface: named results
}

type Pred struct {
	Name   string
	Params []string
	PTypes []string
	Body   string
	Src    string
}

// LockVar ties a mutex field to the ghost variable recording how the current
// goroutine holds it (0 none, 1 read, 2 write) and to its rank in the lock order.
type LockVar struct {
	Prefix string
	Ghost  string
	Rank   int
}

type GhostVar struct {
	Name string
	Type string // Go type syntax
}

type GhostField struct {
	Struct string
	Name   string
	Type   string
}

type SmtFun struct {
	Name string
	Args []string
	Ret  string
}

type Axiom struct {
	Label string
	SMT   string
	Why   string
}

type Lemma struct {
	Name   string
	Props  []string
	Theory string
	SMT    string // body: declarations + assert of the negated goal
	Src    string
}

// Spec is the whole contract table.
type Spec struct {
	Contracts  map[string]*Contract
	Order      []string
	Preds      map[string]*Pred
	GhostVars  map[string]*GhostVar
	GhostFlds  map[string]*GhostField // key Struct.Name
	SmtFuns    map[string]*SmtFun
	Axioms     []Axiom
	Lemmas     []*Lemma
	RawPrelude []string
	Guards     map[string]string // heap component prefix -> guard name
	LockVars   map[string]*LockVar // location prefix of a mutex -> ghost variable
}

func newSpec() *Spec {
	return &Spec{Contracts: map[string]*Contract{}, Preds: map[string]*Pred{}, GhostVars: map[string]*GhostVar{},
		GhostFlds: map[string]*GhostField{}, SmtFuns: map[string]*SmtFun{}, Guards: map[string]string{}, LockVars: map[string]*LockVar{}}
}

var labelRe = regexp.MustCompile(`^\[([^\]]+)\]\s*`)
var propRe = regexp.MustCompile(`^C[0-9]{2,3}$`)

func parseClause(rest, src string) Clause {
	c := Clause{Src: src}
	if m := labelRe.FindStringSubmatch(rest); m != nil {
		rest = rest[len(m[0]):]
		var lab []string
		for _, w := range strings.Fields(m[1]) {
			if propRe.MatchString(w) {
				c.Props = append(c.Props, w)
			} else {
				lab = append(lab, w)
			}
		}
		c.Label = strings.Join(lab, " ")
	}
	c.Expr = strings.TrimSpace(rest)
	return c
}

// loadSpecFile parses a file. If prefix != "", only lines starting with the
// prefix (after trimming) are considered and the prefix is stripped.
func (sp *Spec) loadFile(path, prefix string) error {
	f, err := os.Open(path)
	if err != nil {
		return err
	}
	defer f.Close()
	sc := bufio.NewScanner(f)
	sc.Buffer(make([]byte, 1<<20), 1<<20)
	var lines []string
	var srcs []string
	ln := 0
	for sc.Scan() {
		ln++
		line := sc.Text()
		t := strings.TrimSpace(line)
		if prefix != "" {
			if !strings.HasPrefix(t, prefix) {
				continue
			}
			t = strings.TrimSpace(t[len(prefix):])
		}
		if t == "" || strings.HasPrefix(t, "#") {
			continue
		}
		if strings.HasPrefix(t, "+") && len(lines) > 0 {
			lines[len(lines)-1] += " " + strings.TrimSpace(t[1:])
			continue
		}
		lines = append(lines, t)
		srcs = append(srcs, fmt.Sprintf("%s:%d", path, ln))
	}
	var cur *Contract
	for i, t := range lines {
		src := srcs[i]
		word, rest := splitWord(t)
		switch word {
		case "func", "extern", "iface":
			name := strings.TrimSpace(rest)
			var params, results []string
			if word != "func" {
				// extern name(p1, p2) (r1, r2)
				if k := strings.Index(name, "("); k >= 0 && !strings.HasPrefix(name, "(") {
					sig := name[k:]
					name = strings.TrimSpace(name[:k])
					params, results = parseSig(sig)
				} else if strings.HasPrefix(name, "(") {
					// method: (*T).M(p...) (r...)
					k := strings.Index(name, ").")
					j := strings.Index(name[k+2:], "(")
					if j >= 0 {
						sig := name[k+2+j:]
						name = strings.TrimSpace(name[:k+2+j])
						params, results = parseSig(sig)
					}
				}
			}
			if prev, dup := sp.Contracts[name]; dup {
				// several blocks for one function are merged (e.g. functional and lock-discipline clauses)
				cur = prev
				break
			}
			cur = &Contract{Target: name, Kind: word, Loops: map[int]*LoopSpec{}, Src: src, Params: params, Results: results}
			if word != "func" {
				cur.Trusted = "external"
			}
			sp.Contracts[name] = cur
			sp.Order = append(sp.Order, name)
		case "serves":
			cur.Serves = append(cur.Serves, strings.Fields(rest)...)
		case "theory":
			cur.Theory = strings.TrimSpace(rest)
		case "requires":
			cur.Requires = append(cur.Requires, parseClause(rest, src))
		case "ensures":
			cur.Ensures = append(cur.Ensures, parseClause(rest, src))
		case "assumed-ensures":
			cur.Lemmas = append(cur.Lemmas, parseClause(rest, src))
		case "assume":
			cur.Assumes = append(cur.Assumes, parseClause(rest, src))
		case "decreases":
			cur.Decreases = append(cur.Decreases, parseClause(rest, src))
		case "modifies":
			cur.HasMod = true
			cur.Modifies = append(cur.Modifies, parseList(rest)...)
		case "callhint":
			// callhint <callee> [label] expr : an intermediate assertion at every call of callee
			cal, r2 := splitWord(rest)
			if cur.CallHints == nil {
				cur.CallHints = map[string][]Clause{}
			}
			cur.CallHints[cal] = append(cur.CallHints[cal], parseClause(r2, src))
		case "allocates":
			cur.Allocates = append(cur.Allocates, parseList(rest)...)
		case "atexit":
			// atexit target var := expr
			tg, r2 := splitWord(rest)
			r2 = strings.TrimSpace(r2)
			if strings.HasPrefix(r2, ":=") {
				// scalar ghost field: atexit target := expr
				cur.AtExit = append(cur.AtExit, AtExit{Target: tg, Expr: strings.TrimSpace(r2[2:]), Src: src})
				break
			}
			vr, r3 := splitWord(r2)
			r3 = strings.TrimSpace(r3)
			if !strings.HasPrefix(r3, ":=") {
				return fmt.Errorf("%s: bad atexit", src)
			}
			cur.AtExit = append(cur.AtExit, AtExit{Target: tg, Var: vr, Expr: strings.TrimSpace(r3[2:]), Src: src})
		case "inline":
			cur.Inline = true
		case "pure":
			cur.Pure = true
			cur.HasMod = true
		case "trusted":
			cur.Trusted = strings.Trim(strings.TrimSpace(rest), `"`)
			if cur.Trusted == "" {
				cur.Trusted = "trusted"
			}
		case "may_panic":
			cur.MayPanic = strings.Trim(strings.TrimSpace(rest), `"`)
		case "dead":
			// dead return N "reason": the N-th return statement of the function (source order) is unreachable
			// under the contract; every other return must be reachable on some path (vacuity guard)
			w, r2 := splitWord(rest)
			ns, why := splitWord(r2)
			k, err := strconv.Atoi(ns)
			if w != "return" || err != nil {
				return fmt.Errorf("%s: dead return <n> \"reason\"", src)
			}
			if cur.DeadRets == nil {
				cur.DeadRets = map[int]string{}
			}
			cur.DeadRets[k] = strings.Trim(strings.TrimSpace(why), `"`)
		case "skip":
			w, why := splitWord(rest)
			cur.Skips = append(cur.Skips, w)
			cur.SkipWhy += w + ": " + strings.Trim(strings.TrimSpace(why), `"`) + "; "
		case "ghost", "let":
			// ghost name type := expr
			name, r2 := splitWord(rest)
			typ, r3 := splitWord(r2)
			r3 = strings.TrimSpace(r3)
			ex := ""
			if strings.HasPrefix(r3, ":=") {
				ex = strings.TrimSpace(r3[2:])
			}
			g := GhostOut{Name: name, Type: typ, Expr: ex}
			if word == "ghost" {
				cur.Ghosts = append(cur.Ghosts, g)
			} else {
				cur.Lets = append(cur.Lets, g)
			}
		case "loop":
			ns, r2 := splitWord(rest)
			n, err := strconv.Atoi(ns)
			if err != nil {
				return fmt.Errorf("%s: bad loop ordinal %q", src, ns)
			}
			ls := cur.Loops[n]
			if ls == nil {
				ls = &LoopSpec{}
				cur.Loops[n] = ls
			}
			kind, r3 := splitWord(r2)
			switch kind {
			case "invariant":
				ls.Invariants = append(ls.Invariants, parseClause(r3, src))
			case "decreases":
				ls.Decreases = append(ls.Decreases, parseClause(r3, src))
			case "modifies":
				ls.HasMod = true
				ls.Modifies = append(ls.Modifies, parseList(r3)...)
			case "snap":
				ls.Snaps = append(ls.Snaps, strings.Fields(r3)...)
			case "cut":
				ls.Cut = true
			case "ghost":
				// loop N ghost name type [:= init]
				name, r4 := splitWord(r3)
				typ, r5 := splitWord(r4)
				r5 = strings.TrimSpace(r5)
				ls.Ghosts = append(ls.Ghosts, &LoopGhost{Name: name, Type: typ, Init: strings.TrimSpace(strings.TrimPrefix(r5, ":=")), Src: src})
			case "update":
				// loop N update name [var] := expr
				lhs, rhs, ok := strings.Cut(r3, ":=")
				if !ok {
					return fmt.Errorf("%s: bad loop update", src)
				}
				f := strings.Fields(lhs)
				var lg *LoopGhost
				for _, g := range ls.Ghosts {
					if len(f) > 0 && g.Name == f[0] {
						lg = g
					}
				}
				if lg == nil {
					return fmt.Errorf("%s: update of undeclared loop ghost", src)
				}
				if len(f) > 1 {
					lg.Var = f[1]
				}
				lg.Upd = strings.TrimSpace(rhs)
			case "let":
				name, r4 := splitWord(r3)
				typ, r5 := splitWord(r4)
				r5 = strings.TrimSpace(r5)
				ls.Lets = append(ls.Lets, GhostOut{Name: name, Type: typ, Expr: strings.TrimSpace(strings.TrimPrefix(r5, ":="))})
			default:
				return fmt.Errorf("%s: bad loop clause %q", src, kind)
			}
		case "pred":
			// pred name(a T, b U) = body
			k := strings.Index(rest, "(")
			e := strings.Index(rest, ")")
			eq := strings.Index(rest, "=")
			if k < 0 || e < 0 || eq < e {
				return fmt.Errorf("%s: bad pred", src)
			}
			p := &Pred{Name: strings.TrimSpace(rest[:k]), Body: strings.TrimSpace(rest[eq+1:]), Src: src}
			for _, a := range strings.Split(rest[k+1:e], ",") {
				a = strings.TrimSpace(a)
				if a == "" {
					continue
				}
				n, ty := splitWord(a)
				p.Params = append(p.Params, n)
				p.PTypes = append(p.PTypes, strings.TrimSpace(ty))
			}
			sp.Preds[p.Name] = p
		case "ghostvar":
			n, ty := splitWord(rest)
			sp.GhostVars[n] = &GhostVar{Name: n, Type: strings.TrimSpace(ty)}
		case "ghostfield":
			n, ty := splitWord(rest)
			k := strings.Index(n, ".")
			sp.GhostFlds[n] = &GhostField{Struct: n[:k], Name: n[k+1:], Type: strings.TrimSpace(ty)}
		case "smtfun":
			// smtfun name (A B) R
			n, r2 := splitWord(rest)
			k := strings.Index(r2, "(")
			e := strings.Index(r2, ")")
			sp.SmtFuns[n] = &SmtFun{Name: n, Args: strings.Fields(r2[k+1 : e]), Ret: strings.TrimSpace(r2[e+1:])}
		case "smt":
			sp.RawPrelude = append(sp.RawPrelude, rest)
		case "axiom":
			c := parseClause(rest, src)
			sp.Axioms = append(sp.Axioms, Axiom{Label: c.Label, SMT: c.Expr})
		case "lemma":
			// lemma name [Cxx ...] theory := smt text
			n, r2 := splitWord(rest)
			c := parseClause(strings.TrimSpace(r2), src)
			th, body := splitWord(c.Expr)
			sp.Lemmas = append(sp.Lemmas, &Lemma{Name: n, Props: c.Props, Theory: th, SMT: strings.TrimSpace(body), Src: src})
		case "lockvar":
			// lockvar <mutex location prefix> <ghost var> <rank>
			f := strings.Fields(rest)
			if len(f) != 3 {
				return fmt.Errorf("%s: lockvar <prefix> <ghost> <rank>", src)
			}
			rk, _ := strconv.Atoi(f[2])
			sp.LockVars[f[0]] = &LockVar{Prefix: f[0], Ghost: f[1], Rank: rk}
		case "guard":
			// guard <component-prefix> <guardname>
			n, g := splitWord(rest)
			sp.Guards[n] = strings.TrimSpace(g)
		default:
			return fmt.Errorf("%s: unknown directive %q", src, word)
		}
	}
	return nil
}

func parseSig(sig string) (params, results []string) {
	// "(a, b) (r1, r2)" or "(a, b) r"
	sig = strings.TrimSpace(sig)
	e := strings.Index(sig, ")")
	for _, p := range strings.Split(sig[1:e], ",") {
		p = strings.TrimSpace(p)
		if p != "" {
			params = append(params, p)
		}
	}
	rest := strings.TrimSpace(sig[e+1:])
	rest = strings.Trim(rest, "()")
	for _, p := range strings.Split(rest, ",") {
		p = strings.TrimSpace(p)
		if p != "" {
			results = append(results, p)
		}
	}
	return
}

func splitWord(s string) (string, string) {
	s = strings.TrimSpace(s)
	k := strings.IndexAny(s, " \t")
	if k < 0 {
		return s, ""
	}
	return s[:k], strings.TrimSpace(s[k:])
}

func parseList(s string) []string {
	var out []string
	depth := 0
	start := 0
	flush := func(end int) {
		p := strings.TrimSpace(s[start:end])
		if p != "" && p != "nothing" {
			out = append(out, p)
		}
	}
	for i := 0; i < len(s); i++ {
		switch s[i] {
		case '[', '(':
			depth++
		case ']', ')':
			depth--
		case ',':
			if depth == 0 {
				flush(i)
				start = i + 1
			}
		}
	}
	flush(len(s))
	return out
}

// splitMod splits a modifies entry "comp@expr" into component and target expression.
func splitMod(m string) (comp, at string) {
	if k := strings.Index(m, "@"); k >= 0 {
		return strings.TrimSpace(m[:k]), strings.TrimSpace(m[k+1:])
	}
	return m, ""
}
