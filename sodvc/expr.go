package main

import (
	"fmt"
	"go/ast"
	"go/parser"
	"go/token"
	"go/types"
	"math/big"
	"strconv"
	"strings"
)

type specErr struct{ msg string }

type tval struct {
	V Value
	T types.Type
}

var (
	tBool   = types.Typ[types.Bool]
	tInt    = types.Typ[types.UntypedInt] // mathematical integer
	tString = types.Typ[types.String]
	tF64    = types.Typ[types.Float64]
	tAny    = types.NewInterfaceType(nil, nil)
)

type evalCtx struct {
	r    *funcRun
	st   *State
	cur  *HeapSnap // heap view for plain expressions (nil = current heap of st)
	old  *HeapSnap // heap view for old(...)
	vars map[string]tval
	src  string
	// skolem: the expression is in a positive top-level position of a goal;
	// forall is replaced by a fresh constant (declared in st, a scratch state)
	skolem bool
	// bound: SMT names of the quantified variables in scope (outer binders)
	bound []string
	// lenient: an unknown identifier evaluates to an unconstrained value (ghost
	// definitions mention names that are bound on some paths only)
	lenient bool
}

func (c *evalCtx) fail(format string, a ...interface{}) {
	panic(specErr{fmt.Sprintf("%s: %s", c.src, fmt.Sprintf(format, a...))})
}

func (r *funcRun) baseVars(st *State) map[string]tval {
	vars := map[string]tval{}
	for n, v := range st.names {
		if t, ok := st.ntypes[n]; ok {
			vars[n] = tval{v, t}
		}
	}
	for n, v := range r.params {
		vars[n] = tval{v, r.ptypes[n]}
	}
	for n, v := range r.lets {
		vars[n] = tval{v, r.lettypes[n]}
	}
	return vars
}

func (r *funcRun) evalBool(st *State, expr string, old *HeapSnap, extra map[string]tval, src string) Term {
	vars := r.baseVars(st)
	for k, v := range extra {
		vars[k] = v
	}
	c := &evalCtx{r: r, st: st, old: old, vars: vars, src: src}
	return c.boolExpr(expr)
}

func (r *funcRun) evalInt(st *State, expr string, old *HeapSnap, src string) Term {
	c := &evalCtx{r: r, st: st, old: old, vars: r.baseVars(st), src: src}
	tv := c.evalStr(expr)
	t, ok := tv.V.(Term)
	if !ok || t.Sort != SInt {
		c.fail("expected integer expression: %s", expr)
	}
	return t
}

func (c *evalCtx) boolExpr(expr string) Term {
	tv := c.evalStr(expr)
	t, ok := tv.V.(Term)
	if !ok || t.Sort != SBool {
		c.fail("expected boolean expression: %s", expr)
	}
	return t
}

func (c *evalCtx) evalStr(expr string) tval {
	e, err := parser.ParseExpr(expr)
	if err != nil {
		c.fail("parse error in %q: %v", expr, err)
	}
	return c.eval(e)
}

func (c *evalCtx) term(e ast.Expr) Term {
	tv := c.eval(e)
	t, ok := tv.V.(Term)
	if !ok {
		c.fail("expected a scalar term, got %T in %s", tv.V, exprString(e))
	}
	return t
}

func exprString(e ast.Expr) string {
	return types.ExprString(e)
}

func (c *evalCtx) parseType(s string) types.Type {
	if gt, ok := c.r.v.ghostTypeOf(s); ok {
		return gt
	}
	t, ok := c.r.v.lookupType(s)
	if !ok {
		c.fail("bad type %q", s)
	}
	return t
}

func (c *evalCtx) noSkolem() *evalCtx {
	if !c.skolem {
		return c
	}
	n := *c
	n.skolem = false
	return &n
}

func (c *evalCtx) eval(e ast.Expr) tval {
	if c.skolem {
		keep := false
		switch x := e.(type) {
		case *ast.ParenExpr:
			keep = true
		case *ast.BinaryExpr:
			keep = x.Op == token.LAND
		case *ast.CallExpr:
			switch fn := exprString(x.Fun); fn {
			case "forall", "forallk", "imp", "old", "since":
				keep = true
			default:
				_, keep = c.r.v.spec.Preds[fn]
			}
		}
		if !keep {
			c = c.noSkolem()
		}
	}
	switch x := e.(type) {
	case *ast.ParenExpr:
		return c.eval(x.X)
	case *ast.BasicLit:
		switch x.Kind {
		case token.INT:
			bi, ok := new(big.Int).SetString(x.Value, 0)
			if !ok {
				c.fail("bad int %s", x.Value)
			}
			return tval{BigLit(bi), tInt}
		case token.STRING:
			s, err := strconv.Unquote(x.Value)
			if err != nil {
				c.fail("bad string %s", x.Value)
			}
			return tval{StrLit(s), tString}
		case token.FLOAT:
			f, _ := strconv.ParseFloat(x.Value, 64)
			return tval{f64Lit(f), tF64}
		}
	case *ast.Ident:
		return c.ident(x.Name)
	case *ast.UnaryExpr:
		switch x.Op {
		case token.NOT:
			return tval{Not(c.term(x.X)), tBool}
		case token.SUB:
			t := c.term(x.X)
			return tval{mk(SInt, "(- %s)", t.S), tInt}
		}
	case *ast.BinaryExpr:
		return c.binary(x)
	case *ast.StarExpr:
		p := c.eval(x.X)
		pt, ok := p.T.Underlying().(*types.Pointer)
		if !ok {
			c.fail("deref of non-pointer %s", exprString(x.X))
		}
		return tval{c.r.v.readLoc(c.st, c.cur, c.r.v.derefLoc(p.V, pt.Elem())), pt.Elem()}
	case *ast.SelectorExpr:
		return c.selector(x)
	case *ast.IndexExpr:
		return c.index(x)
	case *ast.SliceExpr:
		s := c.term(x.X)
		lo := IntLit(0)
		hi := SlLen(s)
		if x.Low != nil {
			lo = c.term(x.Low)
		}
		if x.High != nil {
			hi = c.term(x.High)
		}
		return tval{MkSlice(SlArr(s), Add(SlOff(s), lo), Sub(hi, lo), Sub(SlCap(s), lo)), c.eval(x.X).T}
	case *ast.CallExpr:
		return c.call(x)
	case *ast.TypeAssertExpr:
		v := c.term(x.X)
		t := c.parseType(exprString(x.Type))
		p, _ := c.r.fromVal(c.st, v, t)
		return tval{p, t}
	}
	c.fail("unsupported expression %s (%T)", exprString(e), e)
	return tval{}
}

func (c *evalCtx) ident(name string) tval {
	switch name {
	case "true":
		return tval{BoolLit(true), tBool}
	case "false":
		return tval{BoolLit(false), tBool}
	case "nil":
		return tval{IntLit(0), types.Typ[types.UntypedNil]}
	}
	if v, ok := c.vars["&"+name]; ok {
		// a local variable that lives in a memory cell (address taken / captured / named result with
		// defer): its current value is what the cell holds now, not a register loaded earlier
		if _, isParam := c.r.params[name]; !isParam {
			if pt, isP := v.T.Underlying().(*types.Pointer); isP {
				return tval{c.r.v.readLoc(c.st, c.cur, c.r.v.derefLoc(v.V, pt.Elem())), pt.Elem()}
			}
		}
	}
	if v, ok := c.vars[name]; ok {
		return v
	}
	if gv, ok := c.r.v.spec.GhostVars[name]; ok {
		t := c.parseType(gv.Type)
		loc := &Loc{Prefix: "Ghost." + name, Type: t}
		return tval{c.r.v.readLoc(c.st, c.cur, loc), t}
	}
	// package-level object
	if obj := c.r.v.pkg.Pkg.Scope().Lookup(name); obj != nil {
		switch o := obj.(type) {
		case *types.Var:
			g := c.r.v.pkg.Var(name)
			if g != nil {
				if v, ok := c.r.v.constGlobal(c.st, g); ok {
					return tval{v, o.Type()}
				}
				return tval{c.r.v.readLoc(c.st, c.cur, c.r.globalLoc(g)), o.Type()}
			}
		case *types.Const:
			cv := c.r.v.pkg.Const(name)
			if cv != nil {
				return tval{c.r.constVal(cv.Value), o.Type()}
			}
		}
	}
	if c.lenient {
		return tval{c.st.freshConst("undef_"+name, SInt), tInt}
	}
	c.fail("unknown identifier %q", name)
	return tval{}
}

func isNilT(t types.Type) bool {
	b, ok := t.(*types.Basic)
	return ok && b.Kind() == types.UntypedNil
}

func (c *evalCtx) binary(x *ast.BinaryExpr) tval {
	switch x.Op {
	case token.LAND:
		return tval{And(c.term(x.X), c.term(x.Y)), tBool}
	case token.LOR:
		return tval{Or(c.term(x.X), c.term(x.Y)), tBool}
	}
	a := c.eval(x.X)
	b := c.eval(x.Y)
	at, aok := a.V.(Term)
	bt, bok := b.V.(Term)
	if !aok || !bok {
		if x.Op == token.EQL || x.Op == token.NEQ {
			eq := c.structEq(a.V, b.V)
			if x.Op == token.NEQ {
				eq = Not(eq)
			}
			return tval{eq, tBool}
		}
		c.fail("binary operator on composite values: %s", exprString(x))
	}
	// nil against other sorts
	if isNilT(a.T) && bt.Sort != SInt {
		at = zeroOf(bt.Sort)
	}
	if isNilT(b.T) && at.Sort != SInt {
		bt = zeroOf(at.Sort)
	}
	switch x.Op {
	case token.EQL:
		if at.Sort == SSlice && (isNilT(a.T) || isNilT(b.T)) {
			return tval{c.r.equal(at, bt), tBool}
		}
		if at.Sort == SF64 {
			return tval{Eq(at, bt), tBool}
		}
		return tval{Ident(at, bt), tBool}
	case token.NEQ:
		if at.Sort == SSlice && (isNilT(a.T) || isNilT(b.T)) {
			return tval{Not(c.r.equal(at, bt)), tBool}
		}
		if at.Sort == SF64 {
			return tval{Not(Eq(at, bt)), tBool}
		}
		return tval{Not(Ident(at, bt)), tBool}
	}
	if at.Sort == SInt {
		op := map[token.Token]string{token.LSS: "<", token.LEQ: "<=", token.GTR: ">", token.GEQ: ">=", token.ADD: "+", token.SUB: "-", token.MUL: "*", token.QUO: "div", token.REM: "mod"}[x.Op]
		if op == "" {
			c.fail("operator %s", x.Op)
		}
		res := mk(SInt, "(%s %s %s)", op, at.S, bt.S)
		switch x.Op {
		case token.LSS, token.LEQ, token.GTR, token.GEQ:
			res.Sort = SBool
			return tval{res, tBool}
		}
		return tval{res, tInt}
	}
	if at.Sort == SStr {
		switch x.Op {
		case token.ADD:
			return tval{mk(SStr, "(str.++ %s %s)", at.S, bt.S), tString}
		case token.LSS:
			return tval{mk(SBool, "(str.< %s %s)", at.S, bt.S), tBool}
		case token.LEQ:
			return tval{mk(SBool, "(str.<= %s %s)", at.S, bt.S), tBool}
		}
	}
	if at.Sort == SF64 {
		op := map[token.Token]string{token.LSS: "fp.lt", token.LEQ: "fp.leq", token.GTR: "fp.gt", token.GEQ: "fp.geq"}[x.Op]
		if op != "" {
			return tval{mk(SBool, "(%s %s %s)", op, at.S, bt.S), tBool}
		}
	}
	c.fail("unsupported binary %s", exprString(x))
	return tval{}
}

func (c *evalCtx) structEq(a, b Value) Term {
	// an interior address (field of a struct, element of an array) is never nil
	if _, isLoc := a.(*Loc); isLoc {
		if t, ok := b.(Term); ok && t.S == "0" {
			return BoolLit(false)
		}
	}
	if _, isLoc := b.(*Loc); isLoc {
		if t, ok := a.(Term); ok && t.S == "0" {
			return BoolLit(false)
		}
	}
	switch x := a.(type) {
	case Term:
		y, ok := b.(Term)
		if !ok {
			c.fail("comparison of different shapes")
		}
		return Ident(x, y)
	case *StructVal:
		y, ok := b.(*StructVal)
		if !ok || len(x.F) != len(y.F) {
			c.fail("comparison of different shapes")
		}
		var parts []Term
		for i := range x.F {
			parts = append(parts, c.structEq(x.F[i], y.F[i]))
		}
		return And(parts...)
	}
	c.fail("comparison of %T", a)
	return Term{}
}

// fieldOf finds a (possibly ghost) field of a struct type by name.
func (c *evalCtx) fieldOf(st types.Type, name string) (types.Type, int, bool) {
	if s, ok := st.Underlying().(*types.Struct); ok {
		for i := 0; i < s.NumFields(); i++ {
			if s.Field(i).Name() == name {
				return s.Field(i).Type(), i, true
			}
		}
	}
	if gf, ok := c.r.v.spec.GhostFlds[c.r.v.structName(st)+"."+name]; ok {
		return c.parseType(gf.Type), -1, true
	}
	return nil, 0, false
}

func (c *evalCtx) selector(x *ast.SelectorExpr) tval {
	base := c.eval(x.X)
	name := x.Sel.Name
	t := base.T
	if pt, ok := t.Underlying().(*types.Pointer); ok {
		st := pt.Elem()
		ft, _, ok := c.fieldOf(st, name)
		if !ok {
			c.fail("no field %s in %s", name, st)
		}
		var loc *Loc
		switch b := base.V.(type) {
		case Term:
			loc = &Loc{Prefix: c.r.v.structName(st) + "." + name, Idx: []Term{b}, Type: ft}
		case *Loc:
			loc = &Loc{Prefix: b.Prefix + "." + name, Idx: b.Idx, Type: ft}
		default:
			c.fail("selector on %T", base.V)
		}
		res := c.r.v.readLoc(c.st, c.cur, loc)
		c.assumeInv(res, ft)
		return tval{res, ft}
	}
	if _, isI := t.Underlying().(*types.Interface); isI {
		if gf, ok := c.r.v.spec.GhostFlds[c.r.v.structName(t)+"."+name]; ok {
			ft := c.parseType(gf.Type)
			bt, isT := base.V.(Term)
			if !isT {
				c.fail("ghost field of non-term")
			}
			loc := &Loc{Prefix: c.r.v.structName(t) + "." + name, Idx: []Term{bt}, Type: ft}
			return tval{c.r.v.readLoc(c.st, c.cur, loc), ft}
		}
	}
	if sv, ok := base.V.(*StructVal); ok {
		ft, i, ok := c.fieldOf(t, name)
		if !ok || i < 0 {
			c.fail("no field %s in %s", name, t)
		}
		return tval{sv.F[i], ft}
	}
	c.fail("selector %s on non-struct %s", name, t)
	return tval{}
}

// assumeInv: the type invariant of a value read from the heap holds in every
// heap version; it is assumed when the term mentions no bound variable.
func (c *evalCtx) assumeInv(v Value, t types.Type) {
	tm, ok := v.(Term)
	if !ok || strings.Contains(tm.S, "q_") {
		return
	}
	if tm.Sort == SSlice {
		c.st.assume(c.r.v.typeInv(c.st, tm, t))
		return
	}
	if tm.Sort == SInt {
		switch t.Underlying().(type) {
		case *types.Pointer, *types.Map:
			a := c.st.alloc
			if c.cur != nil {
				a = c.cur.alloc
			}
			c.st.assume(And(Le(IntLit(0), tm), Le(tm, a)))
		}
	}
}

func (c *evalCtx) index(x *ast.IndexExpr) tval {
	base := c.eval(x.X)
	idx := c.term(x.Index)
	switch u := base.T.Underlying().(type) {
	case *types.Slice:
		s := base.V.(Term)
		loc := c.r.v.elemLoc(SlArr(s), At(s, idx), u.Elem())
		return tval{c.r.v.readLoc(c.st, c.cur, loc), u.Elem()}
	case *types.Map:
		if c.r.v.ghostArrays[base.T] {
			vs, _ := c.r.v.leafSort(u.Elem())
			return tval{Term{S: "(select " + base.V.(Term).S + " " + idx.S + ")", Sort: vs}, u.Elem()}
		}
		mi := c.r.v.mapInfo(u)
		return tval{c.r.v.mapValRead(c.st, c.cur, mi, base.V.(Term), idx), u.Elem()}
	case *types.Basic:
		if u.Info()&types.IsString != 0 {
			return tval{mk(SInt, "(str.to_code (str.at %s %s))", base.V.(Term).S, idx.S), types.Typ[types.Uint8]}
		}
	}
	c.fail("index on %s", base.T)
	return tval{}
}

func (c *evalCtx) withHeap(h *HeapSnap) *evalCtx {
	n := *c
	n.cur = h
	return &n
}

func (c *evalCtx) bindQ(name string, v tval, q string) *evalCtx {
	n := c.bind(name, v)
	n.bound = append(append([]string(nil), c.bound...), q)
	return n
}

func (c *evalCtx) bind(name string, v tval) *evalCtx {
	n := *c
	n.vars = make(map[string]tval, len(c.vars)+1)
	for k, x := range c.vars {
		n.vars[k] = x
	}
	n.vars[name] = v
	return &n
}

func sortType(s string) types.Type {
	switch s {
	case "Bool":
		return tBool
	case "Int":
		return tInt
	case "String":
		return tString
	case "F64":
		return tF64
	case "Val":
		return tAny
	}
	return tInt
}

var builtinSmtFuns = map[string]*SmtFun{
	"klt":   {Name: "klt", Args: []string{"Val", "Val"}, Ret: "Bool"},
	"keq":   {Name: "keq", Args: []string{"Val", "Val"}, Ret: "Bool"},
	"ordv":  {Name: "ordv", Args: []string{"Val"}, Ret: "Bool"},
	"rank":  {Name: "rank", Args: []string{"Val"}, Ret: "Int"},
	"isnan": {Name: "isnan", Args: []string{"Val"}, Ret: "Bool"},
	"wfval": {Name: "wfval", Args: []string{"Val"}, Ret: "Bool"},
	"cdirf":     {Name: "cdirf", Args: []string{"String", "String"}, Ret: "String"},
	"opathf":    {Name: "opathf", Args: []string{"String", "String", "String", "Bool"}, Ret: "String"},
	"spathf":    {Name: "spathf", Args: []string{"String"}, Ret: "String"},
	"vtag":      {Name: "vtag", Args: []string{"Val"}, Ret: "Int"},
	"vpay":      {Name: "vpay", Args: []string{"Val"}, Ret: "Int"},
	"dyntype":   {Name: "dyntype", Args: []string{"Int"}, Ret: "Int"},
	"norm":      {Name: "norm", Args: []string{"Val"}, Ret: "Val"},
	"normable":  {Name: "normable", Args: []string{"Val"}, Ret: "Bool"},
	"supported": {Name: "supported", Args: []string{"Val"}, Ret: "Bool"},
	"castRank":  {Name: "castRank", Args: []string{"String"}, Ret: "Int"},
	"unixnano":  {Name: "unixnano", Args: []string{"Int"}, Ret: "Int"},
	"VInt":      {Name: "VInt", Args: []string{"Int"}, Ret: "Val"},
	"VUint":     {Name: "VUint", Args: []string{"Int"}, Ret: "Val"},
	"VFloat":    {Name: "VFloat", Args: []string{"F64"}, Ret: "Val"},
	"VStr":      {Name: "VStr", Args: []string{"String"}, Ret: "Val"},
	"isVStr":    {Name: "(_ is VStr)", Args: []string{"Val"}, Ret: "Bool"},
	"vstr":      {Name: "vstr", Args: []string{"Val"}, Ret: "String"},
}

func (c *evalCtx) call(x *ast.CallExpr) tval {
	fname := exprString(x.Fun)
	arg := func(i int) ast.Expr {
		if i >= len(x.Args) {
			c.fail("%s: missing argument %d", fname, i)
		}
		return x.Args[i]
	}
	identArg := func(i int) string {
		id, ok := arg(i).(*ast.Ident)
		if !ok {
			c.fail("%s: argument %d must be an identifier", fname, i)
		}
		return id.Name
	}
	switch fname {
	case "old":
		if c.old == nil {
			c.fail("old() not available here")
		}
		return c.withHeap(c.old).eval(arg(0))
	case "len":
		a := c.eval(arg(0))
		t := a.V.(Term)
		switch t.Sort {
		case SSlice:
			return tval{SlLen(t), tInt}
		case SStr:
			return tval{mk(SInt, "(str.len %s)", t.S), tInt}
		case SInt:
			if mt, ok := a.T.Underlying().(*types.Map); ok {
				mi := c.r.v.mapInfo(mt)
				card := c.st.compAt(c.cur, "MapCard["+strings.TrimPrefix(mi.dom, "MapDom["), "(Array Int Int)")
				return tval{mk(SInt, "(ite (= %s 0) 0 (select %s %s))", t.S, card, t.S), tInt}
			}
		}
		c.fail("len of %s", a.T)
	case "cap":
		return tval{SlCap(c.term(arg(0))), tInt}
	case "arr":
		return tval{SlArr(c.term(arg(0))), tInt}
	case "off":
		return tval{SlOff(c.term(arg(0))), tInt}
	case "imp":
		return tval{Imp(c.noSkolem().term(arg(0)), c.term(arg(1))), tBool}
	case "seed":
		c.st.seed(c.noSkolem().term(arg(0)))
		return tval{BoolLit(true), tBool}
	case "iff":
		return tval{Ident(c.term(arg(0)), c.term(arg(1))), tBool}
	case "cur":
		// cur(p): the current value of parameter p when it lives in a memory cell (address taken); the bare
		// name p always denotes the value at entry
		name := identArg(0)
		if v, ok := c.vars["&"+name]; ok {
			if pt, isP := v.T.Underlying().(*types.Pointer); isP {
				return tval{c.r.v.readLoc(c.st, c.cur, c.r.v.derefLoc(v.V, pt.Elem())), pt.Elem()}
			}
		}
		return c.ident(name)
	case "letin":
		// letin(x, e, body): body with x standing for the value e has here (also inside old(...) in body)
		return c.bind(identArg(0), c.eval(arg(1))).eval(arg(2))
	case "ite":
		a, b := c.eval(arg(1)), c.eval(arg(2))
		return tval{Ite(c.term(arg(0)), a.V.(Term), b.V.(Term)), a.T}
	case "forall", "exists":
		name := identArg(0)
		lo, hi := c.term(arg(1)), c.term(arg(2))
		if !strings.Contains(lo.S, "q_") {
			c.st.seed(lo)
		}
		if !strings.Contains(hi.S, "q_") {
			c.st.seed(hi)
			c.st.seed(Sub(hi, IntLit(1)))
		}
		if c.skolem && fname == "forall" {
			sk := c.st.freshConst("sk_"+name, SInt)
			// tautologies that invite a case split at the ends of the range (last / first element)
			c.st.cmds = append(c.st.cmds, fmt.Sprintf("(assert (or (>= %s %s) (< %s (- %s 1)) (= %s (- %s 1))))", sk.S, hi.S, sk.S, hi.S, sk.S, hi.S))
			c.st.cmds = append(c.st.cmds, fmt.Sprintf("(assert (or (< %s %s) (= %s %s) (> %s %s)))", sk.S, lo.S, sk.S, lo.S, sk.S, lo.S))
			c.st.seed(sk)
			c.st.seed(Add(sk, IntLit(1)))
			c.st.seed(Sub(sk, IntLit(1)))
			if h, ok := goalHints[x]; ok {
				hc := c.noSkolem().bind(name, tval{sk, tInt})
				func() {
					defer func() { recover() }()
					ht := hc.eval(h)
					if t, isT := ht.V.(Term); isT {
						for _, p := range groundAtTerms(t.S) {
							key := "hint:" + p
							if !c.st.declared[key] {
								c.st.declared[key] = true
								c.st.cmds = append(c.st.cmds, "(assert (trg "+p+"))")
							}
						}
					}
				}()
			}
			body := c.bind(name, tval{sk, tInt}).term(arg(3))
			return tval{Imp(And(Le(lo, sk), Lt(sk, hi)), body), tBool}
		}
		*c.st.fresh++
		q := fmt.Sprintf("q_%s%d", name, *c.st.fresh)
		bound := Term{S: q, Sort: SInt}
		body := c.noSkolem().bindQ(name, tval{bound, tInt}, q).term(arg(3))
		rng := And(Le(lo, bound), Lt(bound, hi))
		if fname == "forall" {
			pats := findPatterns(body.S, q, "(at ", c.bound)
			if len(pats) == 0 {
				return tval{mk(SBool, "(forall ((%s Int)) (! %s :pattern ((trg %s))))", q, Imp(rng, And(mk(SBool, "(trg %s)", q), body)).S, q), tBool}
			}
			var ps strings.Builder
			for _, p := range pats {
				ps.WriteString(" :pattern (" + p + ")")
			}
			// goal skolems (and quantifier bounds) are seeded with trg: a second way in
			if trgAlt {
				ps.WriteString(" :pattern ((trg " + q + "))")
			}
			return tval{mk(SBool, "(forall ((%s Int)) (! %s%s))", q, Imp(rng, body).S, ps.String()), tBool}
		}
		return tval{mk(SBool, "(exists ((%s Int)) %s)", q, And(rng, body).S), tBool}
	case "forallk", "existsk":
		name := identArg(0)
		t := c.parseType(exprString(arg(1)))
		s, ok := c.r.v.leafSort(t)
		if !ok {
			c.fail("forallk over %s", t)
		}
		ktrg := ""
		switch s {
		case SInt:
			ktrg = "trgk"
		case SStr:
			ktrg = "trgs"
		}
		if c.skolem && fname == "forallk" {
			sk := c.st.freshConst("sk_"+name, s)
			c.st.seedKey(sk)
			var guard Term = BoolLit(true)
			if _, _, isInt := intRange(t); isInt {
				guard = inRange(sk, t)
			}
			body := c.bind(name, tval{sk, t}).term(arg(2))
			return tval{Imp(guard, body), tBool}
		}
		*c.st.fresh++
		q := fmt.Sprintf("q_%s%d", name, *c.st.fresh)
		bound := Term{S: q, Sort: s}
		body := c.noSkolem().bindQ(name, tval{bound, t}, q).term(arg(2))
		var guard Term = BoolLit(true)
		if _, _, isInt := intRange(t); isInt {
			guard = inRange(bound, t)
		}
		if fname == "forallk" {
			if pats := findPatterns(body.S, q, "(select ", c.bound); len(pats) > 0 {
				var ps strings.Builder
				for _, p := range pats {
					ps.WriteString(" :pattern (" + p + ")")
				}
				return tval{mk(SBool, "(forall ((%s %s)) (! %s%s))", q, string(s), Imp(guard, body).S, ps.String()), tBool}
			}
			if ktrg != "" {
				return tval{mk(SBool, "(forall ((%s %s)) (! %s :pattern ((%s %s))))", q, string(s), Imp(guard, And(mk(SBool, "(%s %s)", ktrg, q), body)).S, ktrg, q), tBool}
			}
			return tval{mk(SBool, "(forall ((%s %s)) %s)", q, string(s), Imp(guard, body).S), tBool}
		}
		return tval{mk(SBool, "(exists ((%s %s)) %s)", q, string(s), And(guard, body).S), tBool}
	case "has":
		m := c.eval(arg(0))
		mt, ok := m.T.Underlying().(*types.Map)
		if !ok {
			c.fail("has on non-map")
		}
		mi := c.r.v.mapInfo(mt)
		kt := c.term(arg(1))
		if !strings.Contains(kt.S, "q_") {
			c.st.seedKey(kt)
		}
		return tval{c.r.v.mapHas(c.st, c.cur, mi, m.V.(Term), kt), tBool}
	case "fresh":
		if c.old == nil {
			c.fail("fresh() needs an old state")
		}
		t := c.term(arg(0))
		return tval{Lt(c.old.alloc, t), tBool}
	case "elemAt":
		// elemAt(T, a, i): element i of the backing array a of element type T (raw access, for frame clauses)
		et := c.parseType(exprString(arg(0)))
		ls, ok := c.r.v.leafSort(et)
		if !ok {
			c.fail("elemAt of %s", et)
		}
		comp := "Elem[" + typeString(et) + "]"
		sig := compSort(ls, 2)
		e := c.st.compAt(c.cur, comp, sig)
		return tval{mk(ls, "(select (select %s %s) %s)", e, c.term(arg(1)).S, c.term(arg(2)).S), et}
	case "allocated":
		t := c.term(arg(0))
		a := c.st.alloc
		if c.cur != nil {
			a = c.cur.alloc
		}
		return tval{And(Lt(IntLit(0), t), Le(t, a)), tBool}
	case "errIs":
		return tval{mk(SBool, "(errIs %s %s)", c.term(arg(0)).S, c.term(arg(1)).S), tBool}
	case "visited":
		k := c.term(arg(0))
		it, ok := c.vars["$iter:"+string(k.Sort)]
		if !ok {
			it, ok = c.vars["$iter"]
		}
		if !ok {
			c.fail("visited() outside a map range loop")
		}
		name, sig := c.r.iterComp(k.Sort)
		vis := c.st.compAt(c.cur, name, sig)
		return tval{mk(SBool, "(select (select %s %s) %s)", vis, it.V.(Term).S, k.S), tBool}
	case "typeis":
		v := c.term(arg(0))
		t := c.parseType(exprString(arg(1)))
		_, ok := c.r.fromVal(c.st, v, t)
		return tval{ok, tBool}
	case "toval":
		a := c.eval(arg(0))
		return tval{c.r.toVal(c.st, a.V, a.T), tAny}
	case "arrayof":
		// arrayof(var, KeyType, expr): the total array  var -> expr
		name := identArg(0)
		kt := c.parseType(exprString(arg(1)))
		ks, ok := c.r.v.leafSort(kt)
		if !ok {
			c.fail("arrayof over %s", kt)
		}
		*c.st.fresh++
		q := fmt.Sprintf("q_%s%d", name, *c.st.fresh)
		body := c.noSkolem().bindQ(name, tval{Term{S: q, Sort: ks}, kt}, q).eval(arg(2))
		bt, isT := body.V.(Term)
		if !isT {
			c.fail("arrayof body must be scalar")
		}
		as := Sort(arraySort(string(ks), string(bt.Sort)))
		A := c.st.freshConst("arrayof", as)
		c.st.cmds = append(c.st.cmds, fmt.Sprintf("(assert (forall ((%s %s)) (! (= (select %s %s) %s) :pattern ((select %s %s)))))", q, string(ks), A.S, q, bt.S, A.S, q))
		gt, _ := c.r.v.ghostTypeOf("garray[" + exprString(arg(1)) + "]" + goTypeOfSort(bt.Sort))
		return tval{A, gt}
	case "trig":
		return tval{mk(SBool, "(trg %s)", c.term(arg(0)).S), tBool}
	case "upd":
		// upd(a, k, v): the ghost array a with a[k] := v
		a := c.eval(arg(0))
		at, ok := a.V.(Term)
		if !ok || !c.r.v.ghostArrays[a.T] {
			c.fail("upd expects a ghost array")
		}
		return tval{Term{S: "(store " + at.S + " " + c.term(arg(1)).S + " " + c.term(arg(2)).S + ")", Sort: at.Sort}, a.T}
	case "hasSuffix":
		return tval{mk(SBool, "(str.suffixof %s %s)", c.term(arg(1)).S, c.term(arg(0)).S), tBool}
	case "cast":
		// cast(e, T): the reference e viewed as a value of type T
		return tval{c.term(arg(0)), c.parseType(exprString(arg(1)))}
	case "asobj":
		// asobj(e): the reference e viewed as a value of the interface type Object
		t := c.parseType("Object")
		return tval{c.term(arg(0)), t}
	case "tagof":
		return tval{typeTag(c.parseType(exprString(arg(0)))), tInt}
	case "touch":
		// touch(s[i]): true; mentions the element access so that it can serve as a trigger
		ix, ok := arg(0).(*ast.IndexExpr)
		if !ok {
			c.fail("touch expects an index expression")
		}
		sl := c.term(ix.X)
		return tval{mk(SBool, "(trg %s)", At(sl, c.term(ix.Index)).S), tBool}
	case "trigk":
		kt := c.term(arg(0))
		if kt.Sort == SStr {
			return tval{mk(SBool, "(trgs %s)", kt.S), tBool}
		}
		return tval{mk(SBool, "(trgk %s)", kt.S), tBool}
	case "preserved":
		// preserved(comp...): the component agrees with the old state at every reference allocated then
		if c.old == nil {
			c.fail("preserved() needs an old state")
		}
		var parts []Term
		for i := range x.Args {
			name := strings.ReplaceAll(strings.Trim(exprString(arg(i)), `"`), " ", "")
			for _, comp := range c.r.v.expandMods([]string{name}) {
				sig, ok := c.st.compSig[comp]
				if !ok {
					if sg, found := c.r.v.sigOfComp(comp); found {
						c.st.compSig[comp] = sg
						sig, ok = sg, true
					}
				}
				if !ok {
					c.fail("preserved: unknown component %s", comp)
				}
				parts = append(parts, c.r.frameFormula(sig, c.st.compAt(c.cur, comp, sig), c.st.compAt(c.old, comp, sig), c.old.alloc, nil, true))
			}
		}
		return tval{And(parts...), tBool}
	case "since":
		// since(S, e): e evaluated with old() referring to the named snapshot S
		sn, ok := c.st.snaps[identArg(0)]
		if !ok {
			if c.lenient {
				return tval{BoolLit(true), tBool}
			}
			c.fail("unknown snapshot %s", identArg(0))
		}
		n := *c
		n.old = sn
		return n.eval(arg(1))
	case "allocmark":
		// allocmark(): the allocation counter of the state the expression is evaluated in
		a := c.st.alloc
		if c.cur != nil {
			a = c.cur.alloc
		}
		return tval{a, tInt}
	case "preservedBelow":
		// preservedBelow(bound, comp...): the components agree with the old state at every reference <= bound
		if c.old == nil {
			c.fail("preservedBelow() needs an old state")
		}
		bound := c.term(arg(0))
		var parts []Term
		for i := 1; i < len(x.Args); i++ {
			name := strings.ReplaceAll(strings.Trim(exprString(arg(i)), `"`), " ", "")
			for _, comp := range c.r.v.expandMods([]string{name}) {
				sig, ok := c.st.compSig[comp]
				if !ok {
					if sg, found := c.r.v.sigOfComp(comp); found {
						c.st.compSig[comp] = sg
						sig, ok = sg, true
					}
				}
				if !ok {
					c.fail("preservedBelow: unknown component %s", comp)
				}
				parts = append(parts, c.r.frameFormula(sig, c.st.compAt(c.cur, comp, sig), c.st.compAt(c.old, comp, sig), bound, nil, true))
			}
		}
		return tval{And(parts...), tBool}
	case "preservedAt":
		// preservedAt(comp, ref): the component agrees with the old state at every old reference but ref
		if c.old == nil {
			c.fail("preservedAt() needs an old state")
		}
		name := strings.ReplaceAll(strings.Trim(exprString(arg(0)), `"`), " ", "")
		tg := c.term(arg(1))
		var parts []Term
		for _, comp := range c.r.v.expandMods([]string{name}) {
			sig, ok := c.st.compSig[comp]
			if !ok {
				if sg, found := c.r.v.sigOfComp(comp); found {
					c.st.compSig[comp] = sg
					sig, ok = sg, true
				}
			}
			if !ok {
				c.fail("preservedAt: unknown component %s", comp)
			}
			parts = append(parts, c.r.frameFormula(sig, c.st.compAt(c.cur, comp, sig), c.st.compAt(c.old, comp, sig), c.old.alloc, []Term{tg}, true))
		}
		return tval{And(parts...), tBool}
	case "unchanged":
		// unchanged(comp): the heap component is the same as in the old state
		if c.old == nil {
			c.fail("unchanged() needs an old state")
		}
		var parts []Term
		for i := range x.Args {
			name := strings.ReplaceAll(strings.Trim(exprString(arg(i)), `"`), " ", "")
			for _, comp := range c.r.v.expandMods([]string{name}) {
				sig, ok := c.st.compSig[comp]
				if !ok {
					if sg, found := c.r.v.sigOfComp(comp); found {
						c.st.compSig[comp] = sg
						sig, ok = sg, true
					}
				}
				if !ok {
					c.fail("unchanged: unknown component %s", comp)
				}
				parts = append(parts, mk(SBool, "(= %s %s)", c.st.compAt(c.cur, comp, sig), c.st.compAt(c.old, comp, sig)))
			}
		}
		return tval{And(parts...), tBool}
	}
	if p, ok := c.r.v.spec.Preds[fname]; ok {
		if len(x.Args) != len(p.Params) {
			c.fail("pred %s expects %d arguments", fname, len(p.Params))
		}
		n := *c
		n.vars = map[string]tval{}
		for k, v := range c.vars {
			if strings.HasPrefix(k, "$") {
				n.vars[k] = v
			}
		}
		for i, pn := range p.Params {
			n.vars[pn] = c.eval(x.Args[i])
		}
		n.src = p.Src
		return n.evalStr(p.Body)
	}
	sf, ok := c.r.v.spec.SmtFuns[fname]
	if !ok {
		sf, ok = builtinSmtFuns[fname]
	}
	if ok {
		var parts []string
		for i := range sf.Args {
			parts = append(parts, c.term(arg(i)).S)
		}
		s := Sort(sf.Ret)
		if len(parts) == 0 {
			return tval{Term{S: sf.Name, Sort: s}, sortType(sf.Ret)}
		}
		return tval{Term{S: "(" + sf.Name + " " + strings.Join(parts, " ") + ")", Sort: s}, sortType(sf.Ret)}
	}
	c.fail("unknown function %s", fname)
	return tval{}
}

// goalPart is one conjunct of a goal together with the context to evaluate it in.
type goalPart struct {
	e   ast.Expr
	ctx *evalCtx
}

// goalParts splits a goal into its top-level conjuncts, expanding predicates.
func (c *evalCtx) goalParts(e ast.Expr) []goalPart {
	switch x := e.(type) {
	case *ast.ParenExpr:
		return c.goalParts(x.X)
	case *ast.BinaryExpr:
		if x.Op == token.LAND {
			return append(c.goalParts(x.X), c.goalParts(x.Y)...)
		}
	case *ast.CallExpr:
		fname := exprString(x.Fun)
		if (fname == "forall" || fname == "forallk" || fname == "imp") && len(x.Args) >= 2 {
			// distribute over the conjuncts of the body; predicates inside are not
			// expanded here (their parameters would need the binder)
			last := x.Args[len(x.Args)-1]
			var conj []ast.Expr
			var flat func(e ast.Expr)
			flat = func(e ast.Expr) {
				switch y := e.(type) {
				case *ast.ParenExpr:
					flat(y.X)
					return
				case *ast.BinaryExpr:
					if y.Op == token.LAND {
						flat(y.X)
						flat(y.Y)
						return
					}
				}
				conj = append(conj, e)
			}
			if call, ok := last.(*ast.CallExpr); ok {
				if inl := c.inlinePred(call); inl != nil {
					last = inl
				}
			}
			flat(last)
			if len(conj) == 1 {
				if call, ok := conj[0].(*ast.CallExpr); ok {
					if inl := c.inlinePred(call); inl != nil {
						conj = nil
						flat(inl)
					}
				}
			}
			if len(conj) > 1 {
				var out []goalPart
				for _, cj := range conj {
					args := append(append([]ast.Expr(nil), x.Args[:len(x.Args)-1]...), cj)
					ne := &ast.CallExpr{Fun: x.Fun, Args: args}
					// remember the whole body: its element accesses seed the triggers of the
					// hypotheses when this conjunct is proved on its own
					if h, ok := goalHints[x]; ok {
						goalHints[ne] = h
					} else {
						goalHints[ne] = last
					}
					out = append(out, c.goalParts(ne)...)
				}
				return out
			}
			if inner, ok := last.(*ast.CallExpr); ok {
				fn := exprString(inner.Fun)
				if fn == "forall" || fn == "forallk" || fn == "imp" {
					sub := c.goalParts(inner)
					if len(sub) > 1 {
						var out []goalPart
						for _, sp := range sub {
							args := append(append([]ast.Expr(nil), x.Args[:len(x.Args)-1]...), sp.e)
							ne := &ast.CallExpr{Fun: x.Fun, Args: args}
							if h, ok := goalHints[x]; ok {
								goalHints[ne] = h
							}
							out = append(out, goalPart{ne, c})
						}
						return out
					}
				}
			}
		}
		if fname == "since" && len(x.Args) == 2 {
			sub := c.goalParts(x.Args[1])
			if len(sub) > 1 {
				var out []goalPart
				for _, sp := range sub {
					out = append(out, goalPart{&ast.CallExpr{Fun: x.Fun, Args: []ast.Expr{x.Args[0], sp.e}}, sp.ctx})
				}
				return out
			}
		}
		if (fname == "preserved" || fname == "unchanged") && len(x.Args) > 1 {
			var out []goalPart
			for _, a := range x.Args {
				out = append(out, goalPart{&ast.CallExpr{Fun: x.Fun, Args: []ast.Expr{a}}, c})
			}
			return out
		}
		if fname == "preservedBelow" && len(x.Args) > 2 {
			var out []goalPart
			for _, a := range x.Args[1:] {
				out = append(out, goalPart{&ast.CallExpr{Fun: x.Fun, Args: []ast.Expr{x.Args[0], a}}, c})
			}
			return out
		}
		if p, ok := c.r.v.spec.Preds[fname]; ok && len(x.Args) == len(p.Params) {
			n := *c
			n.vars = map[string]tval{}
			for k, v := range c.vars {
				if strings.HasPrefix(k, "$") {
					n.vars[k] = v
				}
			}
			for i, pn := range p.Params {
				n.vars[pn] = c.noSkolem().eval(x.Args[i])
			}
			n.src = p.Src
			body, err := parser.ParseExpr(p.Body)
			if err != nil {
				c.fail("parse error in pred %s: %v", fname, err)
			}
			return n.goalParts(body)
		}
	}
	return []goalPart{{e, c}}
}

// findPatterns returns the distinct subterms "(<head> G q)" of body in which G is a
// ground term (mentions no bound variable): the natural triggers of a quantifier over q.
func findPatterns(body, q, head string, outer []string) []string {
	// variables bound by enclosing quantifiers may occur in a trigger; variables
	// bound deeper inside the body may not
	mentionsInner := func(t string) bool {
		for i := 0; i+2 <= len(t); i++ {
			if t[i] == 'q' && t[i+1] == '_' && (i == 0 || t[i-1] == ' ' || t[i-1] == '(') {
				j := i
				for j < len(t) && t[j] != ' ' && t[j] != ')' {
					j++
				}
				name := t[i:j]
				ok := false
				for _, o := range outer {
					if o == name {
						ok = true
					}
				}
				if !ok {
					return true
				}
			}
		}
		return false
	}
	var out []string
	seen := map[string]bool{}
	for i := 0; i+len(head) <= len(body); i++ {
		if body[i:i+len(head)] != head {
			continue
		}
		// parse the first argument
		j := i + len(head)
		start := j
		if j < len(body) && body[j] == '(' {
			depth := 0
			for ; j < len(body); j++ {
				if body[j] == '(' {
					depth++
				} else if body[j] == ')' {
					depth--
					if depth == 0 {
						j++
						break
					}
				}
			}
		} else if j < len(body) && body[j] == '|' {
			j++
			for j < len(body) && body[j] != '|' {
				j++
			}
			j++
		} else {
			for j < len(body) && body[j] != ' ' && body[j] != ')' {
				j++
			}
		}
		first := body[start:j]
		rest := body[j:]
		if !strings.HasPrefix(rest, " "+q+")") {
			continue
		}
		if mentionsInner(first) {
			continue
		}
		pat := body[i : j+len(" "+q+")")]
		if !seen[pat] {
			seen[pat] = true
			out = append(out, pat)
		}
	}
	return out
}

var inlineCounter int

// inlinePred expands a predicate call syntactically (arguments substituted for the
// parameters, bound variables of the body renamed apart).
func (c *evalCtx) inlinePred(call *ast.CallExpr) ast.Expr {
	p, ok := c.r.v.spec.Preds[exprString(call.Fun)]
	if !ok || len(call.Args) != len(p.Params) {
		return nil
	}
	body, err := parser.ParseExpr(p.Body)
	if err != nil {
		return nil
	}
	sub := map[string]ast.Expr{}
	for i, pn := range p.Params {
		sub[pn] = call.Args[i]
	}
	inlineCounter++
	return substExpr(body, sub, fmt.Sprintf("_%d", inlineCounter))
}

// substExpr substitutes identifiers; binders (first argument of forall/forallk/exists) are renamed.
func substExpr(e ast.Expr, sub map[string]ast.Expr, suffix string) ast.Expr {
	switch x := e.(type) {
	case *ast.Ident:
		if r, ok := sub[x.Name]; ok {
			return r
		}
		return x
	case *ast.ParenExpr:
		return &ast.ParenExpr{X: substExpr(x.X, sub, suffix)}
	case *ast.UnaryExpr:
		return &ast.UnaryExpr{Op: x.Op, X: substExpr(x.X, sub, suffix)}
	case *ast.BinaryExpr:
		return &ast.BinaryExpr{Op: x.Op, X: substExpr(x.X, sub, suffix), Y: substExpr(x.Y, sub, suffix)}
	case *ast.StarExpr:
		return &ast.StarExpr{X: substExpr(x.X, sub, suffix)}
	case *ast.SelectorExpr:
		return &ast.SelectorExpr{X: substExpr(x.X, sub, suffix), Sel: x.Sel}
	case *ast.IndexExpr:
		return &ast.IndexExpr{X: substExpr(x.X, sub, suffix), Index: substExpr(x.Index, sub, suffix)}
	case *ast.SliceExpr:
		n := &ast.SliceExpr{X: substExpr(x.X, sub, suffix)}
		if x.Low != nil {
			n.Low = substExpr(x.Low, sub, suffix)
		}
		if x.High != nil {
			n.High = substExpr(x.High, sub, suffix)
		}
		return n
	case *ast.TypeAssertExpr:
		return &ast.TypeAssertExpr{X: substExpr(x.X, sub, suffix), Type: x.Type}
	case *ast.CallExpr:
		fn := exprString(x.Fun)
		n := &ast.CallExpr{Fun: x.Fun}
		inner := sub
		start := 0
		switch fn {
		case "forall", "exists", "forallk", "existsk":
			if id, ok := x.Args[0].(*ast.Ident); ok {
				nn := &ast.Ident{Name: id.Name + suffix}
				inner = map[string]ast.Expr{}
				for k, v := range sub {
					inner[k] = v
				}
				inner[id.Name] = nn
				n.Args = append(n.Args, nn)
				start = 1
				if fn == "forallk" || fn == "existsk" {
					// second argument is a type
					n.Args = append(n.Args, x.Args[1])
					start = 2
				}
			}
		case "typeis":
			n.Args = append(n.Args, substExpr(x.Args[0], sub, suffix), x.Args[1])
			return n
		case "preserved", "unchanged", "preservedAt", "preservedBelow":
			if fn == "preservedAt" || fn == "preservedBelow" {
				k := 1
				if fn == "preservedBelow" {
					k = 0
				}
				n.Args = append([]ast.Expr(nil), x.Args...)
				n.Args[k] = substExpr(x.Args[k], sub, suffix)
				return n
			}
			return x
		}
		for _, a := range x.Args[start:] {
			n.Args = append(n.Args, substExpr(a, inner, suffix))
		}
		return n
	}
	return e
}

func goTypeOfSort(s Sort) string {
	switch s {
	case SInt:
		return "int"
	case SBool:
		return "bool"
	case SStr:
		return "string"
	}
	return "int"
}

// trgAlt: quantifiers that have natural element-access triggers also get (trg q)
var trgAlt = false

// goalHints maps a distributed quantified conjunct to the whole body it was split from.
var goalHints = map[ast.Expr]ast.Expr{}

// groundAtTerms lists the element-access terms (at S I) of a formula that mention no bound variable.
func groundAtTerms(body string) []string {
	var out []string
	seen := map[string]bool{}
	for i := 0; i+4 <= len(body); i++ {
		if body[i:i+4] != "(at " {
			continue
		}
		depth := 0
		j := i
		for ; j < len(body); j++ {
			if body[j] == '(' {
				depth++
			} else if body[j] == ')' {
				depth--
				if depth == 0 {
					j++
					break
				}
			}
		}
		t := body[i:j]
		if strings.Contains(t, "q_") || seen[t] {
			continue
		}
		seen[t] = true
		out = append(out, t)
	}
	return out
}
