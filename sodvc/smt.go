package main

import (
	"fmt"
	"go/types"
	"math/big"
	"regexp"
	"sort"
	"strings"
)

// Sort is the SMT sort of a term.
type Sort string

const (
	SInt   Sort = "Int"
	SBool  Sort = "Bool"
	SStr   Sort = "String"
	SF64   Sort = "F64"
	SVal   Sort = "Val"
	SSlice Sort = "Slice"
)

// Term is an SMT-LIB term with its sort.
type Term struct {
	S    string
	Sort Sort
}

func (t Term) String() string { return t.S }

func mk(sort Sort, format string, a ...interface{}) Term {
	return Term{S: fmt.Sprintf(format, a...), Sort: sort}
}

func IntLit(n int64) Term {
	if n < 0 {
		return Term{S: fmt.Sprintf("(- %d)", -n), Sort: SInt}
	}
	return Term{S: fmt.Sprintf("%d", n), Sort: SInt}
}

func BigLit(n *big.Int) Term {
	if n.Sign() < 0 {
		return Term{S: fmt.Sprintf("(- %s)", new(big.Int).Neg(n).String()), Sort: SInt}
	}
	return Term{S: n.String(), Sort: SInt}
}

func BoolLit(b bool) Term {
	if b {
		return Term{S: "true", Sort: SBool}
	}
	return Term{S: "false", Sort: SBool}
}

func StrLit(s string) Term {
	var sb strings.Builder
	sb.WriteByte('"')
	for i := 0; i < len(s); i++ {
		c := s[i]
		switch {
		case c == '"':
			sb.WriteString(`""`)
		case c >= 0x20 && c < 0x7f && c != '\\':
			sb.WriteByte(c)
		default:
			fmt.Fprintf(&sb, "\\u{%x}", c)
		}
	}
	sb.WriteByte('"')
	return Term{S: sb.String(), Sort: SStr}
}

func And(ts ...Term) Term {
	var parts []string
	for _, t := range ts {
		if t.S == "true" {
			continue
		}
		if t.S == "false" {
			return BoolLit(false)
		}
		parts = append(parts, t.S)
	}
	switch len(parts) {
	case 0:
		return BoolLit(true)
	case 1:
		return Term{S: parts[0], Sort: SBool}
	}
	return Term{S: "(and " + strings.Join(parts, " ") + ")", Sort: SBool}
}

func Or(ts ...Term) Term {
	var parts []string
	for _, t := range ts {
		if t.S == "false" {
			continue
		}
		if t.S == "true" {
			return BoolLit(true)
		}
		parts = append(parts, t.S)
	}
	switch len(parts) {
	case 0:
		return BoolLit(false)
	case 1:
		return Term{S: parts[0], Sort: SBool}
	}
	return Term{S: "(or " + strings.Join(parts, " ") + ")", Sort: SBool}
}

func Not(t Term) Term {
	switch t.S {
	case "true":
		return BoolLit(false)
	case "false":
		return BoolLit(true)
	}
	return Term{S: "(not " + t.S + ")", Sort: SBool}
}

func Imp(a, b Term) Term {
	if a.S == "true" {
		return b
	}
	return Term{S: "(=> " + a.S + " " + b.S + ")", Sort: SBool}
}

func Eq(a, b Term) Term {
	if a.Sort == SF64 {
		// Go == on floats is IEEE equality
		return Term{S: "(fp.eq " + a.S + " " + b.S + ")", Sort: SBool}
	}
	return Term{S: "(= " + a.S + " " + b.S + ")", Sort: SBool}
}

// Ident is structural identity (also for floats).
func Ident(a, b Term) Term {
	return Term{S: "(= " + a.S + " " + b.S + ")", Sort: SBool}
}

func Ite(c, a, b Term) Term {
	if c.S == "true" {
		return a
	}
	if c.S == "false" {
		return b
	}
	return Term{S: "(ite " + c.S + " " + a.S + " " + b.S + ")", Sort: a.Sort}
}

func Select(arr, idx Term, sort Sort) Term {
	return Term{S: "(select " + arr.S + " " + idx.S + ")", Sort: sort}
}

func Store(arr, idx, v Term) Term {
	return Term{S: "(store " + arr.S + " " + idx.S + " " + v.S + ")", Sort: arr.Sort}
}

// Slice accessors
func SlArr(s Term) Term { return Term{S: "(sl_arr " + s.S + ")", Sort: SInt} }
func SlOff(s Term) Term { return Term{S: "(sl_off " + s.S + ")", Sort: SInt} }
func SlLen(s Term) Term { return Term{S: "(sl_len " + s.S + ")", Sort: SInt} }
func SlCap(s Term) Term { return Term{S: "(sl_cap " + s.S + ")", Sort: SInt} }
func MkSlice(arr, off, ln, cp Term) Term {
	return Term{S: "(mk_slice " + arr.S + " " + off.S + " " + ln.S + " " + cp.S + ")", Sort: SSlice}
}

// At is the cell index of element i of slice s in its backing array (= off+i);
// an uninterpreted function so that it can serve as a quantifier trigger.
func At(s, i Term) Term { return Term{S: "(at " + s.S + " " + i.S + ")", Sort: SInt} }

var NilSlice = Term{S: "(mk_slice 0 0 0 0)", Sort: SSlice}

func Add(a, b Term) Term { return Term{S: "(+ " + a.S + " " + b.S + ")", Sort: SInt} }
func Sub(a, b Term) Term { return Term{S: "(- " + a.S + " " + b.S + ")", Sort: SInt} }
func Le(a, b Term) Term  { return Term{S: "(<= " + a.S + " " + b.S + ")", Sort: SBool} }
func Lt(a, b Term) Term  { return Term{S: "(< " + a.S + " " + b.S + ")", Sort: SBool} }

// arraySort gives the SMT sort string of an array from K to V.
func arraySort(k, v string) string { return "(Array " + k + " " + v + ")" }

func sortStr(s Sort) string {
	return string(s)
}

// quote an SMT symbol
func sym(name string) string {
	ok := true
	for _, c := range name {
		if !(c == '_' || c == '.' || c == '@' || c == '$' || c == '!' || (c >= '0' && c <= '9') || (c >= 'a' && c <= 'z') || (c >= 'A' && c <= 'Z')) {
			ok = false
			break
		}
	}
	if ok && len(name) > 0 && !(name[0] >= '0' && name[0] <= '9') {
		return name
	}
	return "|" + strings.ReplaceAll(name, "|", "!") + "|"
}

// ---- Go type -> sort ----

type typeKind int

const (
	kScalar typeKind = iota // one SMT term
	kStruct                 // struct value: flattened
	kTuple
	kArray
	kUnsupported
)

func isEmptyInterface(t types.Type) bool {
	it, ok := t.Underlying().(*types.Interface)
	return ok && it.NumMethods() == 0
}

func isErrorType(t types.Type) bool {
	return types.Identical(t, types.Universe.Lookup("error").Type())
}

// sortOf returns the sort of a scalar Go type.
func sortOf(t types.Type) (Sort, bool) {
	switch u := t.Underlying().(type) {
	case *types.Basic:
		info := u.Info()
		switch {
		case info&types.IsBoolean != 0:
			return SBool, true
		case info&types.IsInteger != 0:
			return SInt, true
		case info&types.IsFloat != 0:
			return SF64, true
		case info&types.IsString != 0:
			return SStr, true
		case u.Kind() == types.UnsafePointer:
			return SInt, true
		case u.Kind() == types.UntypedNil:
			return SInt, true
		}
		return "", false
	case *types.Pointer, *types.Map, *types.Chan, *types.Signature:
		return SInt, true
	case *types.Slice:
		return SSlice, true
	case *types.Interface:
		if u.NumMethods() == 0 {
			return SVal, true
		}
		return SInt, true
	}
	return "", false
}

func classify(t types.Type) typeKind {
	switch t.Underlying().(type) {
	case *types.Struct:
		return kStruct
	case *types.Tuple:
		return kTuple
	case *types.Array:
		return kArray
	}
	if _, ok := sortOf(t); ok {
		return kScalar
	}
	return kUnsupported
}

// intRange returns inclusive bounds for integer basic types (64-bit platform).
func intRange(t types.Type) (lo, hi *big.Int, ok bool) {
	b, isb := t.Underlying().(*types.Basic)
	if !isb || b.Info()&types.IsInteger == 0 {
		return nil, nil, false
	}
	bits := 64
	signed := true
	switch b.Kind() {
	case types.Int8:
		bits = 8
	case types.Int16:
		bits = 16
	case types.Int32:
		bits = 32
	case types.Int64, types.Int, types.UntypedInt, types.UntypedRune:
		bits = 64
	case types.Uint8:
		bits, signed = 8, false
	case types.Uint16:
		bits, signed = 16, false
	case types.Uint32:
		bits, signed = 32, false
	case types.Uint64, types.Uint, types.Uintptr:
		bits, signed = 64, false
	}
	one := big.NewInt(1)
	if signed {
		hi = new(big.Int).Sub(new(big.Int).Lsh(one, uint(bits-1)), one)
		lo = new(big.Int).Neg(new(big.Int).Lsh(one, uint(bits-1)))
	} else {
		lo = big.NewInt(0)
		hi = new(big.Int).Sub(new(big.Int).Lsh(one, uint(bits)), one)
	}
	return lo, hi, true
}

func inRange(x Term, t types.Type) Term {
	lo, hi, ok := intRange(t)
	if !ok {
		return BoolLit(true)
	}
	return And(Le(BigLit(lo), x), Le(x, BigLit(hi)))
}

// typeString is a short, stable name of a Go type for component names.
var anyRe = regexp.MustCompile(`\bany\b`)

func typeString(t types.Type) string {
	s := types.TypeString(t, func(p *types.Package) string {
		if p.Path() == "github.com/0xrawsec/sod" {
			return ""
		}
		return p.Name()
	})
	return anyRe.ReplaceAllString(s, "interface{}")
}

// zero value of a scalar sort
func zeroOf(s Sort) Term {
	switch s {
	case SInt:
		return IntLit(0)
	case SBool:
		return BoolLit(false)
	case SStr:
		return StrLit("")
	case SF64:
		return Term{S: "((_ to_fp 11 53) RNE 0.0)", Sort: SF64}
	case SVal:
		return Term{S: "VNil", Sort: SVal}
	case SSlice:
		return NilSlice
	}
	panic("zeroOf " + string(s))
}

// valKeySort maps a sort to its SMT sort string.
func smtSort(s Sort) string { return string(s) }

// Prelude declares sorts and the Val universe.
const preludeBase = `
(define-sort F64 () (_ FloatingPoint 11 53))
(declare-datatypes ((Slice 0)) (((mk_slice (sl_arr Int) (sl_off Int) (sl_len Int) (sl_cap Int)))))
(declare-datatypes ((Val 0)) (((VNil) (VInt (vint Int)) (VUint (vuint Int)) (VFloat (vfloat F64)) (VStr (vstr String)) (VBool (vbool Bool)) (VOther (vtag Int) (vpay Int)))))
(declare-fun at (Slice Int) Int)
(assert (forall ((s Slice) (i Int)) (! (= (at s i) (+ (sl_off s) i)) :pattern ((at s i)))))
(define-fun rank ((a Val)) Int (ite ((_ is VNil) a) 0 (ite ((_ is VInt) a) 1 (ite ((_ is VUint) a) 2 (ite ((_ is VFloat) a) 3 (ite ((_ is VStr) a) 4 (ite ((_ is VBool) a) 5 6)))))))
(define-fun isnan ((a Val)) Bool (and ((_ is VFloat) a) (fp.isNaN (vfloat a))))
(define-fun ordv ((a Val)) Bool (and (>= (rank a) 1) (<= (rank a) 4) (not (isnan a))
   (=> ((_ is VInt) a) (and (<= (- 9223372036854775808) (vint a)) (<= (vint a) 9223372036854775807)))
   (=> ((_ is VUint) a) (and (<= 0 (vuint a)) (<= (vuint a) 18446744073709551615)))))
`

// Concrete order on Val: total strict weak order (NaN smallest among floats,
// kinds ordered by rank). On two values of the same kind, none NaN, it is the
// Go order of that kind.
const preludeOrderConcrete = `
(define-fun flt ((a F64) (b F64)) Bool (or (and (fp.isNaN a) (not (fp.isNaN b))) (fp.lt a b)))
(define-fun klt ((a Val) (b Val)) Bool
  (or (< (rank a) (rank b))
      (and (= (rank a) (rank b))
           (ite ((_ is VInt) a) (< (vint a) (vint b))
           (ite ((_ is VUint) a) (< (vuint a) (vuint b))
           (ite ((_ is VFloat) a) (flt (vfloat a) (vfloat b))
           (ite ((_ is VStr) a) (str.< (vstr a) (vstr b))
           (ite ((_ is VBool) a) (and (not (vbool a)) (vbool b))
           (ite ((_ is VOther) a) (or (< (vtag a) (vtag b)) (and (= (vtag a) (vtag b)) (< (vpay a) (vpay b))))
            false)))))))))
(define-fun keq ((a Val) (b Val)) Bool (and (not (klt a b)) (not (klt b a))))
`

// Abstract order: uninterpreted strict weak order; the axioms are justified by
// the lemma obligations swo-* proved against the concrete definition.
const preludeOrderAbstract = `
(declare-fun klt (Val Val) Bool)
(define-fun keq ((a Val) (b Val)) Bool (and (not (klt a b)) (not (klt b a))))
(assert (forall ((a Val)) (! (not (klt a a)) :pattern ((klt a a)))))
(assert (forall ((a Val) (b Val) (c Val)) (! (=> (and (klt a b) (klt b c)) (klt a c)) :pattern ((klt a b) (klt b c)))))
(assert (forall ((a Val) (b Val) (c Val)) (! (=> (and (not (klt a b)) (not (klt b c))) (not (klt a c))) :pattern ((klt a b) (klt b c)))))
`

func sortedKeys[V any](m map[string]V) []string {
	ks := make([]string, 0, len(m))
	for k := range m {
		ks = append(ks, k)
	}
	sort.Strings(ks)
	return ks
}

// File names of a collection. Concrete: the string operations of the code (used to verify the
// naming functions). Abstract: uninterpreted, with the facts the DB-level proofs need; each
// axiom is justified by a lemma obligation over the concrete definitions (paths-* lemmas), except
// the two marked ASSUMED which restrict the configuration (see DESIGN.md assumption ledger).
const preludePathsConcrete = `
(define-fun cdirf ((root String) (item String)) String (str.++ root "/" item))
(define-fun opathf ((dir String) (u String) (ext String) (gz Bool)) String (str.++ dir "/" u ext (ite gz ".gz" "")))
(define-fun spathf ((dir String)) String (str.++ dir "/" "schema.json"))
`

const preludePathsAbstract = `
(declare-fun cdirf (String String) String)
(declare-fun opathf (String String String Bool) String)
(declare-fun spathf (String) String)
(assert (forall ((d String)) (! (= (spathf d) (str.++ d "/" "schema.json")) :pattern ((spathf d)))))
(assert (forall ((d String) (u1 String) (u2 String) (e String) (g Bool)) (! (=> (= (opathf d u1 e g) (opathf d u2 e g)) (= u1 u2)) :pattern ((opathf d u1 e g) (opathf d u2 e g)))))
(assert (forall ((d String) (u String) (e String)) (! (str.suffixof ".gz" (opathf d u e true)) :pattern ((opathf d u e true)))))
(assert (forall ((d String) (u String) (e String)) (! (not (str.suffixof ".gz" (opathf d u e false))) :pattern ((opathf d u e false))))) ; ASSUMED: the extension does not end in .gz when compression is off
(assert (forall ((d String) (u String) (e String) (g Bool)) (! (not (= (opathf d u e g) (spathf d))) :pattern ((opathf d u e g))))) ; ASSUMED: no object identifier makes an object file name equal to schema.json
`
