package main

import (
	"fmt"
	"go/types"
	"strings"
)

// structFields lists the fields of a struct type including ghost fields.
type fieldInfo struct {
	Name string
	Type types.Type
}

func (v *Verifier) structName(t types.Type) string {
	if n, ok := t.(*types.Named); ok {
		return typeString(n)
	}
	if a, ok := t.(*types.Alias); ok {
		return v.structName(types.Unalias(a))
	}
	return typeString(t)
}

func structFieldsOf(t types.Type) []fieldInfo {
	st, ok := t.Underlying().(*types.Struct)
	if !ok {
		return nil
	}
	out := make([]fieldInfo, st.NumFields())
	for i := 0; i < st.NumFields(); i++ {
		out[i] = fieldInfo{st.Field(i).Name(), st.Field(i).Type()}
	}
	return out
}

// opaque struct types are modelled as a single Int (e.g. sync.RWMutex held state, time.Time)
func (v *Verifier) opaqueStruct(t types.Type) bool {
	switch typeString(t) {
	case "sync.RWMutex", "sync.Mutex", "time.Time", "bytes.Buffer", "reflect.Value", "sync.WaitGroup":
		return true
	}
	return false
}

// leafSort: sort of a scalar-or-opaque type
func (v *Verifier) leafSort(t types.Type) (Sort, bool) {
	if v.ghostArrays[t] {
		mt := t.(*types.Map)
		ks, ok1 := v.leafSort(mt.Key())
		vs, ok2 := v.leafSort(mt.Elem())
		if ok1 && ok2 {
			return Sort(arraySort(string(ks), string(vs))), true
		}
	}
	if classify(t) == kStruct && v.opaqueStruct(t) {
		return SInt, true
	}
	if classify(t) == kScalar {
		return sortOf(t)
	}
	return "", false
}

// readLoc loads the value at a location from heap view h (nil = current).
func (v *Verifier) readLoc(st *State, h *HeapSnap, l *Loc) Value {
	if s, ok := v.leafSort(l.Type); ok {
		cs := compSort(s, len(l.Idx))
		t := Term{S: st.compAt(h, l.Prefix, cs), Sort: Sort(cs)}
		for _, ix := range l.Idx {
			t = Term{S: "(select " + t.S + " " + ix.S + ")"}
		}
		t.Sort = s
		return t
	}
	switch classify(l.Type) {
	case kStruct:
		fs := structFieldsOf(l.Type)
		sv := &StructVal{T: l.Type, F: make([]Value, len(fs))}
		for i, f := range fs {
			sv.F[i] = v.readLoc(st, h, &Loc{Prefix: l.Prefix + "." + f.Name, Idx: l.Idx, Type: f.Type})
		}
		return sv
	}
	panic(unsupported(fmt.Sprintf("load of type %s", l.Type)))
}

// writeLoc stores a value at a location in the current heap.
func (v *Verifier) writeLoc(st *State, l *Loc, val Value) {
	if s, ok := v.leafSort(l.Type); ok {
		t, isT := val.(Term)
		if !isT {
			if sv, ok := val.(*StructVal); ok && v.opaqueStruct(l.Type) && len(sv.F) == 1 {
				t = sv.F[0].(Term)
			} else {
				panic(unsupported(fmt.Sprintf("store of non-term into %s (%T)", l.Prefix, val)))
			}
		}
		cs := compSort(s, len(l.Idx))
		cur := st.comp(l.Prefix, cs)
		var nv string
		switch len(l.Idx) {
		case 0:
			nv = t.S
		case 1:
			nv = fmt.Sprintf("(store %s %s %s)", cur, l.Idx[0].S, t.S)
		case 2:
			nv = fmt.Sprintf("(store %s %s (store (select %s %s) %s %s))", cur, l.Idx[0].S, cur, l.Idx[0].S, l.Idx[1].S, t.S)
		default:
			panic("arity")
		}
		st.setComp(l.Prefix, cs, nv)
		return
	}
	switch classify(l.Type) {
	case kStruct:
		fs := structFieldsOf(l.Type)
		sv, ok := val.(*StructVal)
		if !ok {
			panic(unsupported("store of non-struct value into struct location"))
		}
		for i, f := range fs {
			v.writeLoc(st, &Loc{Prefix: l.Prefix + "." + f.Name, Idx: l.Idx, Type: f.Type}, sv.F[i])
		}
		return
	}
	panic(unsupported(fmt.Sprintf("store of type %s", l.Type)))
}

// leafComps lists the leaf component names under a location prefix of a type.
func (v *Verifier) leafComps(prefix string, t types.Type) []string {
	if _, ok := v.leafSort(t); ok {
		return []string{prefix}
	}
	if classify(t) == kStruct {
		var out []string
		for _, f := range structFieldsOf(t) {
			out = append(out, v.leafComps(prefix+"."+f.Name, f.Type)...)
		}
		return out
	}
	return []string{prefix}
}

// fieldLoc: address of field i of the struct at base (Term ref or *Loc).
func (v *Verifier) fieldLoc(base Value, structT types.Type, i int) *Loc {
	st := structT.Underlying().(*types.Struct)
	f := st.Field(i)
	switch b := base.(type) {
	case Term:
		return &Loc{Prefix: v.structName(structT) + "." + f.Name(), Idx: []Term{b}, Type: f.Type()}
	case *Loc:
		return &Loc{Prefix: b.Prefix + "." + f.Name(), Idx: b.Idx, Type: f.Type()}
	}
	panic(unsupported(fmt.Sprintf("field address of %T", base)))
}

// derefLoc: the location a pointer value designates (pointer to struct or cell).
func (v *Verifier) derefLoc(p Value, elem types.Type) *Loc {
	switch b := p.(type) {
	case *Loc:
		return b
	case Term:
		if classify(elem) == kStruct && !v.opaqueStruct(elem) {
			return &Loc{Prefix: v.structName(elem), Idx: []Term{b}, Type: elem}
		}
		return &Loc{Prefix: "Cell[" + typeString(elem) + "]", Idx: []Term{b}, Type: elem}
	}
	panic(unsupported(fmt.Sprintf("deref of %T", p)))
}

// elemLoc: element i of backing array arr with element type et.
func (v *Verifier) elemLoc(arr, idx Term, et types.Type) *Loc {
	return &Loc{Prefix: "Elem[" + typeString(et) + "]", Idx: []Term{arr, idx}, Type: et}
}

func mapKeySortStr(k types.Type) string {
	s, ok := sortOf(k)
	if !ok {
		panic(unsupported("map key type " + k.String()))
	}
	return string(s)
}

type mapInfo struct {
	dom    string // component name
	val    string // component prefix
	ksort  Sort
	vt     types.Type
	domSig string
}

func (v *Verifier) mapInfo(mt *types.Map) mapInfo {
	ks, ok := sortOf(mt.Key())
	if !ok {
		panic(unsupported("map key type " + mt.Key().String()))
	}
	name := typeString(mt.Key()) + "," + typeString(mt.Elem())
	return mapInfo{dom: "MapDom[" + name + "]", val: "MapVal[" + name + "]", ksort: ks, vt: mt.Elem(),
		domSig: arraySort("Int", arraySort(string(ks), "Bool"))}
}

func (v *Verifier) mapHas(st *State, h *HeapSnap, mi mapInfo, m, k Term) Term {
	d := st.compAt(h, mi.dom, mi.domSig)
	// a nil map has no key (Go semantics)
	return Term{S: fmt.Sprintf("(and (not (= %s 0)) (select (select %s %s) %s))", m.S, d, m.S, k.S), Sort: SBool}
}

// mapValRead reads m[k] (raw, without the zero-default).
func (v *Verifier) mapValRead(st *State, h *HeapSnap, mi mapInfo, m, k Term) Value {
	return v.readMapVal(st, h, mi.val, mi.ksort, mi.vt, m, k)
}

func (v *Verifier) readMapVal(st *State, h *HeapSnap, prefix string, ks Sort, t types.Type, m, k Term) Value {
	if s, ok := v.leafSort(t); ok {
		sig := arraySort("Int", arraySort(string(ks), string(s)))
		c := st.compAt(h, prefix, sig)
		return Term{S: fmt.Sprintf("(select (select %s %s) %s)", c, m.S, k.S), Sort: s}
	}
	if classify(t) == kStruct {
		fs := structFieldsOf(t)
		sv := &StructVal{T: t, F: make([]Value, len(fs))}
		for i, f := range fs {
			sv.F[i] = v.readMapVal(st, h, prefix+"."+f.Name, ks, f.Type, m, k)
		}
		return sv
	}
	panic(unsupported("map value type " + t.String()))
}

func (v *Verifier) writeMapVal(st *State, prefix string, ks Sort, t types.Type, m, k Term, val Value) {
	if s, ok := v.leafSort(t); ok {
		sig := arraySort("Int", arraySort(string(ks), string(s)))
		c := st.comp(prefix, sig)
		tv := val.(Term)
		st.setComp(prefix, sig, fmt.Sprintf("(store %s %s (store (select %s %s) %s %s))", c, m.S, c, m.S, k.S, tv.S))
		return
	}
	if classify(t) == kStruct {
		fs := structFieldsOf(t)
		sv := val.(*StructVal)
		for i, f := range fs {
			v.writeMapVal(st, prefix+"."+f.Name, ks, f.Type, m, k, sv.F[i])
		}
		return
	}
	panic(unsupported("map value type " + t.String()))
}

func (v *Verifier) mapValComps(mi mapInfo) []string {
	return v.leafComps(mi.val, mi.vt)
}

// zeroValue of a Go type
func (v *Verifier) zeroValue(t types.Type) Value {
	if s, ok := v.leafSort(t); ok {
		return zeroOf(s)
	}
	if classify(t) == kStruct {
		fs := structFieldsOf(t)
		sv := &StructVal{T: t, F: make([]Value, len(fs))}
		for i, f := range fs {
			sv.F[i] = v.zeroValue(f.Type)
		}
		return sv
	}
	panic(unsupported("zero of " + t.String()))
}

// freshValue: unconstrained value of a Go type with its type invariant assumed.
func (v *Verifier) freshValue(st *State, base string, t types.Type) Value {
	if s, ok := v.leafSort(t); ok {
		c := st.freshConst(base, s)
		st.assume(v.typeInv(st, c, t))
		return c
	}
	switch classify(t) {
	case kStruct:
		fs := structFieldsOf(t)
		sv := &StructVal{T: t, F: make([]Value, len(fs))}
		for i, f := range fs {
			sv.F[i] = v.freshValue(st, base+"."+f.Name, f.Type)
		}
		return sv
	case kTuple:
		tp := t.(*types.Tuple)
		tv := &TupleVal{}
		for i := 0; i < tp.Len(); i++ {
			tv.E = append(tv.E, v.freshValue(st, fmt.Sprintf("%s.%d", base, i), tp.At(i).Type()))
		}
		return tv
	}
	panic(unsupported("fresh value of " + t.String()))
}

// typeInv: facts that hold of every value of the Go type.
func (v *Verifier) typeInv(st *State, x Term, t types.Type) Term {
	switch x.Sort {
	case SInt:
		if _, _, ok := intRange(t); ok {
			return inRange(x, t)
		}
		switch t.Underlying().(type) {
		case *types.Pointer, *types.Map, *types.Chan, *types.Signature, *types.Interface:
			if isErrorType(t) {
				return BoolLit(true)
			}
			return And(Le(IntLit(0), x), Le(x, st.alloc))
		}
	case SSlice:
		// a backing array has at most 2^56 elements (assumption): offset + capacity stay below that
		return And(Le(IntLit(0), SlLen(x)), Le(SlLen(x), SlCap(x)), Le(SlCap(x), Term{S: "72057594037927936", Sort: SInt}),
			Le(IntLit(0), SlOff(x)), Le(Add(SlOff(x), SlCap(x)), Term{S: "72057594037927936", Sort: SInt}), Le(IntLit(0), SlArr(x)), Le(SlArr(x), st.alloc),
			Imp(Ident(SlArr(x), IntLit(0)), Ident(SlCap(x), IntLit(0))))
	case SVal:
		return Term{S: "(wfval " + x.S + ")", Sort: SBool}
	}
	return BoolLit(true)
}

// sigOfComp derives the SMT sort of a heap component from its name.
// rangeOfComp: integer range of the values held by a component (if its leaf type is an integer type).
func (v *Verifier) rangeOfComp(name string) (lo, hi string, ok bool) {
	v.lastLeaf = nil
	if _, found := v.sigOfComp(name); !found || v.lastLeaf == nil {
		return "", "", false
	}
	if strings.HasPrefix(name, "MapDom[") || strings.HasPrefix(name, "MapCard[") || strings.HasPrefix(name, "IterVisited[") {
		return "", "", false
	}
	l, h, isInt := intRange(v.lastLeaf)
	if !isInt {
		switch v.lastLeaf.Underlying().(type) {
		case *types.Pointer, *types.Map:
			return "ref", "", true
		case *types.Interface:
			if !isErrorType(v.lastLeaf) && !isEmptyInterface(v.lastLeaf) {
				return "ref", "", true
			}
			return "", "", false
		case *types.Slice:
			return "slice", "", true
		}
		return "", "", false
	}
	return BigLit(l).S, BigLit(h).S, true
}

func (v *Verifier) sigOfComp(name string) (string, bool) {
	evalT := v.lookupType
	walk := func(t types.Type, path string, arity int) (string, bool) {
		for path != "" {
			path = strings.TrimPrefix(path, ".")
			k := strings.Index(path, ".")
			f := path
			if k >= 0 {
				f, path = path[:k], path[k:]
			} else {
				path = ""
			}
			found := false
			for _, fi := range structFieldsOf(t) {
				if fi.Name == f {
					t, found = fi.Type, true
					break
				}
			}
			if !found {
				if gf, ok := v.spec.GhostFlds[v.structName(t)+"."+f]; ok {
					gt, ok2 := evalT(gf.Type)
					if !ok2 {
						return "", false
					}
					t, found = gt, true
				}
			}
			if !found {
				return "", false
			}
		}
		s, ok := v.leafSort(t)
		if !ok {
			return "", false
		}
		v.lastLeaf = t
		return compSort(s, arity), true
	}
	bracket := func(prefix string) (inner, rest string, ok bool) {
		if !strings.HasPrefix(name, prefix+"[") {
			return "", "", false
		}
		depth := 0
		for i := len(prefix); i < len(name); i++ {
			switch name[i] {
			case '[':
				depth++
			case ']':
				depth--
				if depth == 0 {
					return name[len(prefix)+1 : i], name[i+1:], true
				}
			}
		}
		return "", "", false
	}
	if in, rest, ok := bracket("Elem"); ok {
		t, ok := evalT(in)
		if !ok {
			return "", false
		}
		return walk(t, rest, 2)
	}
	if in, rest, ok := bracket("Cell"); ok {
		t, ok := evalT(in)
		if !ok {
			return "", false
		}
		return walk(t, rest, 1)
	}
	splitKV := func(in string) (string, string) {
		depth := 0
		for i := 0; i < len(in); i++ {
			switch in[i] {
			case '[', '(':
				depth++
			case ']', ')':
				depth--
			case ',':
				if depth == 0 {
					return in[:i], in[i+1:]
				}
			}
		}
		return in, ""
	}
	if in, _, ok := bracket("MapDom"); ok {
		ks, _ := splitKV(in)
		kt, ok := evalT(ks)
		if !ok {
			return "", false
		}
		s, _ := sortOf(kt)
		return arraySort("Int", arraySort(string(s), "Bool")), true
	}
	if _, _, ok := bracket("MapCard"); ok {
		return "(Array Int Int)", true
	}
	if in, rest, ok := bracket("MapVal"); ok {
		ks, vs := splitKV(in)
		kt, ok1 := evalT(ks)
		vt, ok2 := evalT(vs)
		if !ok1 || !ok2 {
			return "", false
		}
		ksrt, _ := sortOf(kt)
		inner, ok := walk(vt, rest, 0)
		if !ok {
			return "", false
		}
		return arraySort("Int", arraySort(string(ksrt), inner)), true
	}
	if in, _, ok := bracket("IterVisited"); ok {
		return arraySort("Int", arraySort(in, "Bool")), true
	}
	if strings.HasPrefix(name, "Ghost.") {
		if gv, ok := v.spec.GhostVars[name[6:]]; ok {
			t, ok := evalT(gv.Type)
			if !ok {
				return "", false
			}
			return walk(t, "", 0)
		}
		return "", false
	}
	if k := strings.Index(name, "."); k > 0 {
		t, ok := evalT(name[:k])
		if !ok {
			return "", false
		}
		return walk(t, name[k:], 1)
	}
	return "", false
}

// ghost array types: garray[K]V is a total SMT array from K to V.
func (v *Verifier) ghostTypeOf(s string) (types.Type, bool) {
	if !strings.HasPrefix(s, "garray[") {
		return nil, false
	}
	if t, ok := v.ghostTypes[s]; ok {
		return t, true
	}
	depth := 0
	for i := len("garray"); i < len(s); i++ {
		switch s[i] {
		case '[':
			depth++
		case ']':
			depth--
			if depth == 0 {
				kt, err1 := types.Eval(v.prog.Fset, v.pkg.Pkg, 0, s[len("garray["):i])
				vt, err2 := types.Eval(v.prog.Fset, v.pkg.Pkg, 0, s[i+1:])
				if err1 != nil || err2 != nil {
					return nil, false
				}
				t := types.NewMap(kt.Type, vt.Type)
				v.ghostTypes[s] = t
				v.ghostArrays[t] = true
				return t, true
			}
		}
	}
	return nil, false
}

// lookupType parses a Go type written in a contract; unlike types.Eval in package scope it
// also resolves identifiers qualified by the name of any package of the program.
func (v *Verifier) lookupType(s string) (types.Type, bool) {
	s = strings.TrimSpace(s)
	if gt, ok := v.ghostTypeOf(s); ok {
		return gt, true
	}
	if tv, err := types.Eval(v.prog.Fset, v.pkg.Pkg, 0, s); err == nil && tv.Type != nil {
		return tv.Type, true
	}
	switch {
	case strings.HasPrefix(s, "*"):
		if t, ok := v.lookupType(s[1:]); ok {
			return types.NewPointer(t), true
		}
	case strings.HasPrefix(s, "[]"):
		if t, ok := v.lookupType(s[2:]); ok {
			return types.NewSlice(t), true
		}
	}
	if k := strings.LastIndex(s, "."); k > 0 && !strings.ContainsAny(s, "[]* ") {
		pkgName, name := s[:k], s[k+1:]
		for _, p := range v.prog.AllPackages() {
			if p.Pkg.Name() == pkgName || p.Pkg.Path() == pkgName {
				if o := p.Pkg.Scope().Lookup(name); o != nil {
					if tn, ok := o.(*types.TypeName); ok {
						return tn.Type(), true
					}
				}
			}
		}
	}
	return nil, false
}
