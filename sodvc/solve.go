package main

import (
	"bytes"
	"context"
	"fmt"
	"os"
	"os/exec"
	"path/filepath"
	"strings"
	"sync"
	"time"
)

type solverCfg struct {
	name string
	argv func(file string, timeoutMs int) []string
}

var solvers = map[string]solverCfg{
	"z3-new": {"z3-new", func(f string, t int) []string { return []string{"z3-new", fmt.Sprintf("-t:%d", t), f} }},
	"z3":     {"z3", func(f string, t int) []string { return []string{"/usr/bin/z3", fmt.Sprintf("-t:%d", t), f} }},
	"cvc5": {"cvc5", func(f string, t int) []string {
		return []string{"cvc5", "--strings-exp", fmt.Sprintf("--tlimit=%d", t), f}
	}},
}

func (o *Obligation) smt(prelude string, wantModel bool) string {
	var sb strings.Builder
	if wantModel {
		sb.WriteString("(set-option :produce-models true)\n")
	}
	sb.WriteString("(set-logic ALL)\n")
	sb.WriteString(prelude)
	sb.WriteString("; ---- path ----\n")
	for _, c := range o.Cmds {
		sb.WriteString(c)
		sb.WriteByte('\n')
	}
	sb.WriteString("; ---- goal: " + o.Name + " ----\n")
	if !o.IsCover {
		sb.WriteString("(assert (not " + o.Goal.S + "))\n")
	}
	sb.WriteString("(check-sat)\n")
	if wantModel {
		sb.WriteString("(get-model)\n")
	}
	return sb.String()
}

func runSolver(ctx context.Context, s solverCfg, file string, timeoutMs int) (string, string, int64) {
	argv := s.argv(file, timeoutMs)
	cctx, cancel := context.WithTimeout(ctx, time.Duration(timeoutMs+2000)*time.Millisecond)
	defer cancel()
	cmd := exec.CommandContext(cctx, argv[0], argv[1:]...)
	var out bytes.Buffer
	cmd.Stdout = &out
	cmd.Stderr = &out
	t0 := time.Now()
	cmd.Run()
	ms := time.Since(t0).Milliseconds()
	text := out.String()
	first := ""
	for _, l := range strings.Split(text, "\n") {
		l = strings.TrimSpace(l)
		if l == "sat" || l == "unsat" || l == "unknown" || l == "timeout" {
			first = l
			break
		}
	}
	if first == "" {
		if cctx.Err() != nil {
			first = "timeout"
		} else {
			first = "error"
		}
	}
	return first, text, ms
}

// discharge decides one obligation with the portfolio.
func (v *Verifier) discharge(o *Obligation, dir string, timeoutMs int, all bool) {
	prelude := v.prelude(o.Theory)
	file := filepath.Join(dir, sanitize(o.Name)+".smt2")
	os.WriteFile(file, []byte(o.smt(prelude, false)), 0644)
	want := "unsat"
	if o.IsCover {
		want = "sat"
	}
	order := []string{"z3-new", "cvc5", "z3"}
	if o.Kind == "frame-undeclared" {
		// static finding: only an infeasible path excuses it (one short query)
		res, _, ms := runSolver(context.Background(), solvers["z3-new"], file, 3000)
		o.Ms += ms
		if res == "unsat" {
			o.Result, o.Solver, o.Output = "unsat", "z3-new", "path infeasible"
		} else {
			o.Result = "undeclared"
			o.Output = "the function gives this component a new version (a write at a reference it allocated) but its contract lists it neither under modifies nor under allocates"
		}
		return
	}
	if o.IsCover {
		order = []string{"z3-new"}
		if timeoutMs > 3000 {
			timeoutMs = 3000
		}
	}
	if strings.Contains(o.smtHint(), "str.<") {
		order = []string{"z3-new", "z3", "cvc5"}
	}
	var outs []string
	results := map[string]string{}
	if o.Result == "unsat" && o.Solver == "z3-new" && !o.IsCover {
		// already decided by the incremental stage: the other solvers cross-check (thorough tier)
		results["z3-new"] = "unsat"
		outs = append(outs, o.Output)
		var rest []string
		for _, sn := range order {
			if sn != "z3-new" {
				rest = append(rest, sn)
			}
		}
		order = rest
	}
	for i, sn := range order {
		tmo := timeoutMs
		if i > 0 && !all && tmo > 10000 {
			tmo = 10000 // fall-back solvers get a shorter budget in the quick tier
		}
		if all && o.Result != "" && tmo > 20000 {
			tmo = 20000 // thorough tier: the obligation is decided, the other solvers only cross-check it
		}
		res, out, ms := runSolver(context.Background(), solvers[sn], file, tmo)
		o.Ms += ms
		outs = append(outs, fmt.Sprintf("%s: %s (%d ms)", sn, res, ms))
		if res == "error" {
			outs = append(outs, firstLines(out, 3))
		}
		if res == "sat" || res == "unsat" {
			results[sn] = res
			if o.Result == "" {
				o.Result, o.Solver = res, sn
			} else if o.Result != res {
				o.Result = "disagreement"
			}
			if !all {
				break
			}
		}
	}
	if o.Result == "" {
		o.Result = "unknown"
	}
	o.Output = strings.Join(outs, "; ")
	if o.Result != want && !o.IsCover && o.Result == "sat" {
		// get a model
		mfile := filepath.Join(dir, sanitize(o.Name)+".model.smt2")
		os.WriteFile(mfile, []byte(o.smt(prelude, true)), 0644)
		_, out, _ := runSolver(context.Background(), solvers[o.Solver], mfile, timeoutMs)
		o.Output += "\n" + out
	}
}

func (o *Obligation) smtHint() string {
	return o.Goal.S + strings.Join(o.Cmds, " ")
}

func firstLines(s string, n int) string {
	ls := strings.Split(strings.TrimSpace(s), "\n")
	if len(ls) > n {
		ls = ls[:n]
	}
	return strings.Join(ls, " | ")
}

func sanitize(s string) string {
	var sb strings.Builder
	for _, c := range s {
		switch {
		case c >= 'a' && c <= 'z', c >= 'A' && c <= 'Z', c >= '0' && c <= '9', c == '.', c == '-', c == '_':
			sb.WriteRune(c)
		default:
			sb.WriteByte('_')
		}
	}
	r := sb.String()
	if len(r) > 150 {
		r = r[:150]
	}
	return r
}

// chunkStage is an accelerator: consecutive obligations of one function share long prefixes of their
// path commands (they come from a depth-first exploration), so a chunk of them is sent to one
// incremental z3-new process that asserts the shared prefix once (push/pop per obligation). Only
// "unsat" answers are taken from this stage; everything else is decided by the one-process-per-
// obligation portfolio afterwards.
func (v *Verifier) chunkStage(obls []*Obligation, dir string, perCheckMs int, workers int) {
	const chunkSize = 48
	type chunk struct {
		id   int
		obls []*Obligation
	}
	var chunks []chunk
	var cur []*Obligation
	flush := func() {
		if len(cur) > 1 {
			chunks = append(chunks, chunk{len(chunks), cur})
		}
		cur = nil
	}
	for _, o := range obls {
		if o.Result != "" || o.Kind == "frame-undeclared" {
			continue
		}
		if len(cur) > 0 && (cur[0].Fn != o.Fn || cur[0].Theory != o.Theory || len(cur) >= chunkSize) {
			flush()
		}
		cur = append(cur, o)
	}
	flush()
	var wg sync.WaitGroup
	ch := make(chan chunk)
	for i := 0; i < workers; i++ {
		wg.Add(1)
		go func() {
			defer wg.Done()
			for c := range ch {
				v.runChunk(c.id, c.obls, dir, perCheckMs)
			}
		}()
	}
	for _, c := range chunks {
		ch <- c
	}
	close(ch)
	wg.Wait()
}

func (v *Verifier) runChunk(id int, obls []*Obligation, dir string, perCheckMs int) {
	var sb strings.Builder
	sb.WriteString("(set-logic ALL)\n")
	sb.WriteString(v.prelude(obls[0].Theory))
	var asserted []string // commands currently asserted
	var frames []int      // len(asserted) at each push
	for _, o := range obls {
		l := 0
		for l < len(asserted) && l < len(o.Cmds) && asserted[l] == o.Cmds[l] {
			l++
		}
		for len(asserted) > l && len(frames) > 0 {
			sb.WriteString("(pop 1)\n")
			asserted = asserted[:frames[len(frames)-1]]
			frames = frames[:len(frames)-1]
		}
		if len(asserted) > l {
			// cannot happen: everything asserted lives in some frame
			return
		}
		sb.WriteString("(push 1)\n")
		frames = append(frames, len(asserted))
		for _, c := range o.Cmds[len(asserted):] {
			sb.WriteString(c)
			sb.WriteByte('\n')
		}
		asserted = append(asserted[:len(asserted):len(asserted)], o.Cmds[len(asserted):]...)
		if o.IsCover {
			// cover: the path condition itself; "unsat" here means the path (or the contract) is contradictory
			sb.WriteString("(push 1)\n(check-sat)\n(pop 1)\n")
		} else {
			sb.WriteString("(push 1)\n(assert (not " + o.Goal.S + "))\n(check-sat)\n(pop 1)\n")
		}
	}
	file := filepath.Join(dir, fmt.Sprintf("chunk_%s_%d.smt2", sanitize(obls[0].Fn), id))
	os.WriteFile(file, []byte(sb.String()), 0644)
	if os.Getenv("SODVC_KEEPCHUNK") == "" {
		defer os.Remove(file)
	}
	t0 := time.Now()
	cctx, cancel := context.WithTimeout(context.Background(), time.Duration(len(obls)*perCheckMs+20000)*time.Millisecond)
	defer cancel()
	cmd := exec.CommandContext(cctx, "z3-new", fmt.Sprintf("-t:%d", perCheckMs), file)
	var out bytes.Buffer
	cmd.Stdout = &out
	cmd.Stderr = &out
	cmd.Run()
	ms := time.Since(t0).Milliseconds()
	var answers []string
	for _, l := range strings.Split(out.String(), "\n") {
		l = strings.TrimSpace(l)
		switch l {
		case "sat", "unsat", "unknown", "timeout":
			answers = append(answers, l)
		default:
			if strings.HasPrefix(l, "(error") {
				// an error desynchronises answers and obligations: trust nothing of this chunk
				return
			}
		}
	}
	if len(answers) > len(obls) {
		return
	}
	n := 0
	for i, a := range answers {
		if a == "unsat" {
			n++
			_ = i
		}
	}
	for i, a := range answers {
		if a == "unsat" {
			o := obls[i]
			if o.IsCover {
				// the eager instantiation of the incremental mode refutes the path condition: vacuity
				o.Result, o.Solver = "unsat", "z3-new"
				o.Output = "z3-new (incremental): the path condition is unsatisfiable"
				continue
			}
			o.Result, o.Solver = "unsat", "z3-new"
			o.Ms = ms / int64(len(answers))
			o.Output = fmt.Sprintf("z3-new (incremental, chunk of %d): unsat", len(obls))
		}
	}
}

var chunkEnabled = true

func (v *Verifier) dischargeAll(obls []*Obligation, dir string, timeoutMs int, all bool, workers int) {
	if chunkEnabled && len(obls) >= 32 && os.Getenv("SODVC_NOCHUNK") == "" {
		per := timeoutMs / 3
		if per > 8000 {
			per = 8000
		}
		v.chunkStage(obls, dir, per, workers)
	}
	var wg sync.WaitGroup
	ch := make(chan *Obligation)
	for i := 0; i < workers; i++ {
		wg.Add(1)
		go func() {
			defer wg.Done()
			for o := range ch {
				v.discharge(o, dir, timeoutMs, all)
			}
		}()
	}
	for _, o := range obls {
		if o.Result == "unsat" && (!all || o.IsCover) {
			continue // decided by the chunk stage
		}
		ch <- o
	}
	close(ch)
	wg.Wait()
}
