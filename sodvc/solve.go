package main

import (
	"bytes"
	"context"
	"fmt"
	"os"
	"os/exec"
	"path/filepath"
	"strings"
	"sync"
	"time"
)

type solverCfg struct {
	name string
	argv func(file string, timeoutMs int) []string
}

var solvers = map[string]solverCfg{
	"z3-new": {"z3-new", func(f string, t int) []string { return []string{"z3-new", fmt.Sprintf("-t:%d", t), f} }},
	"z3":     {"z3", func(f string, t int) []string { return []string{"/usr/bin/z3", fmt.Sprintf("-t:%d", t), f} }},
	"cvc5": {"cvc5", func(f string, t int) []string {
		return []string{"cvc5", "--strings-exp", fmt.Sprintf("--tlimit=%d", t), f}
	}},
}

func (o *Obligation) smt(prelude string, wantModel bool) string {
	var sb strings.Builder
	if wantModel {
		sb.WriteString("(set-option :produce-models true)\n")
	}
	sb.WriteString("(set-logic ALL)\n")
	sb.WriteString(prelude)
	sb.WriteString("; ---- path ----\n")
	for _, c := range o.Cmds {
		sb.WriteString(c)
		sb.WriteByte('\n')
	}
	sb.WriteString("; ---- goal: " + o.Name + " ----\n")
	if !o.IsCover {
		sb.WriteString("(assert (not " + o.Goal.S + "))\n")
	}
	sb.WriteString("(check-sat)\n")
	if wantModel {
		sb.WriteString("(get-model)\n")
	}
	return sb.String()
}

func runSolver(ctx context.Context, s solverCfg, file string, timeoutMs int) (string, string, int64) {
	argv := s.argv(file, timeoutMs)
	cctx, cancel := context.WithTimeout(ctx, time.Duration(timeoutMs+2000)*time.Millisecond)
	defer cancel()
	cmd := exec.CommandContext(cctx, argv[0], argv[1:]...)
	var out bytes.Buffer
	cmd.Stdout = &out
	cmd.Stderr = &out
	t0 := time.Now()
	cmd.Run()
	ms := time.Since(t0).Milliseconds()
	text := out.String()
	first := ""
	for _, l := range strings.Split(text, "\n") {
		l = strings.TrimSpace(l)
		if l == "sat" || l == "unsat" || l == "unknown" || l == "timeout" {
			first = l
			break
		}
	}
	if first == "" {
		if cctx.Err() != nil {
			first = "timeout"
		} else {
			first = "error"
		}
	}
	return first, text, ms
}

// discharge decides one obligation with the portfolio.
func (v *Verifier) discharge(o *Obligation, dir string, timeoutMs int, all bool) {
	prelude := v.prelude(o.Theory)
	file := filepath.Join(dir, sanitize(o.Name)+".smt2")
	os.WriteFile(file, []byte(o.smt(prelude, false)), 0644)
	want := "unsat"
	if o.IsCover {
		want = "sat"
	}
	order := []string{"z3-new", "cvc5", "z3"}
	if o.IsCover {
		order = []string{"z3-new"}
		if timeoutMs > 3000 {
			timeoutMs = 3000
		}
	}
	if strings.Contains(o.smtHint(), "str.<") {
		order = []string{"z3-new", "z3", "cvc5"}
	}
	var outs []string
	results := map[string]string{}
	for i, sn := range order {
		tmo := timeoutMs
		if i > 0 && !all && tmo > 10000 {
			tmo = 10000 // fall-back solvers get a shorter budget in the quick tier
		}
		res, out, ms := runSolver(context.Background(), solvers[sn], file, tmo)
		o.Ms += ms
		outs = append(outs, fmt.Sprintf("%s: %s (%d ms)", sn, res, ms))
		if res == "error" {
			outs = append(outs, firstLines(out, 3))
		}
		if res == "sat" || res == "unsat" {
			results[sn] = res
			if o.Result == "" {
				o.Result, o.Solver = res, sn
			} else if o.Result != res {
				o.Result = "disagreement"
			}
			if !all {
				break
			}
		}
	}
	if o.Result == "" {
		o.Result = "unknown"
	}
	o.Output = strings.Join(outs, "; ")
	if o.Result != want && !o.IsCover && o.Result == "sat" {
		// get a model
		mfile := filepath.Join(dir, sanitize(o.Name)+".model.smt2")
		os.WriteFile(mfile, []byte(o.smt(prelude, true)), 0644)
		_, out, _ := runSolver(context.Background(), solvers[o.Solver], mfile, timeoutMs)
		o.Output += "\n" + out
	}
}

func (o *Obligation) smtHint() string {
	return o.Goal.S + strings.Join(o.Cmds, " ")
}

func firstLines(s string, n int) string {
	ls := strings.Split(strings.TrimSpace(s), "\n")
	if len(ls) > n {
		ls = ls[:n]
	}
	return strings.Join(ls, " | ")
}

func sanitize(s string) string {
	var sb strings.Builder
	for _, c := range s {
		switch {
		case c >= 'a' && c <= 'z', c >= 'A' && c <= 'Z', c >= '0' && c <= '9', c == '.', c == '-', c == '_':
			sb.WriteRune(c)
		default:
			sb.WriteByte('_')
		}
	}
	r := sb.String()
	if len(r) > 150 {
		r = r[:150]
	}
	return r
}

func (v *Verifier) dischargeAll(obls []*Obligation, dir string, timeoutMs int, all bool, workers int) {
	var wg sync.WaitGroup
	ch := make(chan *Obligation)
	for i := 0; i < workers; i++ {
		wg.Add(1)
		go func() {
			defer wg.Done()
			for o := range ch {
				v.discharge(o, dir, timeoutMs, all)
			}
		}()
	}
	for _, o := range obls {
		ch <- o
	}
	close(ch)
	wg.Wait()
}
