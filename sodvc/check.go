package main

import (
	"os/exec"
	"context"
	"bytes"
	"encoding/json"
	"flag"
	"fmt"
	"os"
	"path/filepath"
	"sort"
	"strconv"
	"strings"
	"time"
)

type knownFinding struct {
	Property   string `json:"property"`
	Obligation string `json:"obligation"` // base name (without ~N path suffix)
	Status     string `json:"status"`     // open | fixed
	Commit     string `json:"commit,omitempty"`
	What       string `json:"what"`
}

type knownFile struct {
	Findings []knownFinding `json:"findings"`
}

func loadKnown(path string) knownFile {
	var kf knownFile
	b, err := os.ReadFile(path)
	if err != nil {
		return kf
	}
	json.Unmarshal(b, &kf)
	return kf
}

func baseName(n string) string {
	if k := strings.LastIndex(n, "~"); k >= 0 {
		if _, err := strconv.Atoi(n[k+1:]); err == nil {
			return n[:k]
		}
	}
	return n
}

func hasProp(props []string, p string) bool {
	for _, x := range props {
		if x == p {
			return true
		}
	}
	return false
}

type fnReport struct {
	Name        string   `json:"name"`
	Status      string   `json:"status"`
	Obligations int      `json:"obligations"`
	Discharged  int      `json:"discharged"`
	Paths       int      `json:"paths"`
	Notes       []string `json:"notes,omitempty"`
}

func cmdCheck(args []string) {
	fs := flag.NewFlagSet("check", flag.ExitOnError)
	repo := fs.String("repo", "/repo", "repository")
	verif := fs.String("verif", "/verif", "verif directory")
	prop := fs.String("prop", "", "property id")
	tier := fs.String("tier", "", "quick|thorough")
	keep := fs.Bool("keep", false, "keep smt files")
	outDir := fs.String("out", "", "directory for evidence/ and replays/ (default: the verif directory)")
	fs.Parse(args)
	if *tier == "" {
		*tier = os.Getenv("VERIF_TIER")
	}
	if *tier == "" {
		*tier = "quick"
	}
	if *outDir == "" {
		*outDir = *verif
	}
	seed, _ := strconv.Atoi(os.Getenv("VERIF_SEED"))
	t0 := time.Now()
	specDir := filepath.Join(*verif, "contracts")
	v, err := loadVerifier(*repo, specDir)
	if err != nil {
		fmt.Fprintln(os.Stderr, "load:", err)
		// the package does not load: nothing can be proved
		writeEngineFailure(*outDir, *prop, *tier, seed, "package does not load: "+err.Error(), t0)
		os.Exit(1)
	}
	work, err := os.MkdirTemp("", "sodvc-"+*prop+"-")
	if err != nil {
		panic(err)
	}
	if !*keep {
		defer os.RemoveAll(work)
	}
	timeout := 30000
	all := false
	if *tier == "thorough" {
		timeout = 120000
		all = true
	}
	known := loadKnown(filepath.Join(*verif, "known_findings.json"))

	var obls []*Obligation
	var reports []*fnReport
	var engineErrs []string
	var assumptions []string
	trusted := map[string]bool{}
	nfun := 0
	nAll, nWide := 0, 0
	wide := os.Getenv("SODVC_WIDE") == "1" // triage aid only: a failing obligation tagged for another property says which clause to look at; never set by check.sh
	for _, name := range v.spec.Order {
		c := v.spec.Contracts[name]
		if !hasProp(c.Serves, *prop) {
			continue
		}
		if c.Kind != "func" {
			continue
		}
		if c.Trusted != "" {
			trusted[name+" (trusted: "+c.Trusted+")"] = true
			if v.funcs[c.Target] == nil {
				engineErrs = append(engineErrs, "contract-target-missing: "+c.Target)
			}
			continue
		}
		nfun++
		fo, notes, err := v.verifyFunction(c)
		rep := &fnReport{Name: name, Status: "under-contract", Notes: notes}
		if err != nil {
			engineErrs = append(engineErrs, err.Error())
			rep.Status = "engine-error: " + err.Error()
		}
		for _, o := range fo {
			nAll++
			if hasProp(o.Props, *prop) {
				obls = append(obls, o)
				rep.Obligations++
			} else if wide && !o.IsCover {
				// wide selection: every obligation of a function serving the property, whatever its tag
				o.Wide = true
				obls = append(obls, o)
				rep.Obligations++
				nWide++
			}
		}
		for _, a := range c.Lemmas {
			assumptions = append(assumptions, fmt.Sprintf("%s: post-condition assumed by a pencil-and-paper lemma (DESIGN.md), not proved: [%s] %s", name, a.Label, a.Expr))
		}
		for _, a := range c.Assumes {
			assumptions = append(assumptions, fmt.Sprintf("%s assumes [%s] %s", name, a.Label, a.Expr))
		}
		if c.SkipWhy != "" {
			assumptions = append(assumptions, fmt.Sprintf("%s skips obligations: %s", name, c.SkipWhy))
		}
		if c.MayPanic != "" {
			assumptions = append(assumptions, fmt.Sprintf("%s may panic by documented misuse: %s", name, c.MayPanic))
		}
		reports = append(reports, rep)
	}
	// lemmas of the property
	for _, l := range v.spec.Lemmas {
		if hasProp(l.Props, *prop) {
			obls = append(obls, &Obligation{Name: "lemma/" + l.Name, Fn: "lemma", Kind: "lemma", Props: l.Props, Cmds: []string{l.SMT}, Goal: BoolLit(false), Theory: l.Theory, Src: l.Src})
		}
	}
	// callee contracts used: externs and trusted
	for _, name := range v.spec.Order {
		c := v.spec.Contracts[name]
		if c.Kind != "func" {
			trusted[c.Kind+" "+name] = true
		}
	}
	// the axioms (prelude of each theory in use) must be satisfiable on their own: an inconsistent axiom
	// set proves everything. Checked in z3's incremental mode, which instantiates eagerly.
	{
		seen := map[string]bool{}
		for _, o := range obls {
			if seen[o.Theory] {
				continue
			}
			seen[o.Theory] = true
			f := filepath.Join(work, "prelude_"+sanitize(o.Theory)+".smt2")
			os.WriteFile(f, []byte("(set-logic ALL)\n"+v.prelude(o.Theory)+"(push 1)\n(check-sat)\n"), 0644)
			res, _, _ := runSolver(context.Background(), solvers["z3-new"], f, 10000)
			if res == "unsat" {
				engineErrs = append(engineErrs, "inconsistent axioms: the prelude of theory '"+o.Theory+"' is unsatisfiable on its own")
			}
		}
	}
	v.dischargeAll(obls, work, timeout, all, 16)
	// second chance: an obligation no solver decided within the budget is tried again alone-ish (fewer
	// workers, three times the budget), so that machine load does not turn a slow proof into an alarm.
	// "sat" answers and obligations suspended by an open known finding are not retried.
	var again []*Obligation
	for _, o := range obls {
		if o.IsCover || o.Result != "unknown" {
			continue
		}
		susp := false
		for _, k := range known.Findings {
			if k.Status == "open" && k.Property == *prop && k.Obligation == baseName(o.Name) {
				susp = true
			}
		}
		if !susp {
			again = append(again, o)
		}
	}
	retried := len(again)
	if retried > 0 && retried <= 16 {
		for _, o := range again {
			o.FirstTry = o.Output
			o.Result, o.Solver, o.Output = "", "", ""
		}
		v.dischargeAll(again, work, 3*timeout, false, 6)
		for _, o := range again {
			o.Output = "retried with 3x budget after: " + o.FirstTry + " || " + o.Output
		}
	}

	// classify
	byFn := map[string]*fnReport{}
	for _, r := range reports {
		byFn[r.Name] = r
	}
	var failed, suspended []*Obligation
	knownHit := map[int]bool{}
	discharged, total, covers := 0, 0, 0
	var slowest int64
	slowestName := ""
	retCover := map[string][2]int{}
	for _, o := range obls {
		if o.IsCover {
			covers++
			if strings.Contains(o.Name, "cover:return") {
				rc := retCover[o.Fn]
				rc[0]++
				if o.Result == "unsat" {
					rc[1]++
				}
				retCover[o.Fn] = rc
				continue
			}
			if o.Result == "unsat" {
				o.Output = "precondition is unsatisfiable (vacuous contract): " + o.Output
				failed = append(failed, o)
			}
			continue
		}
		ok := o.Result == "unsat"
		isKnown := -1
		for i, k := range known.Findings {
			if k.Status == "open" && k.Property == *prop && k.Obligation == baseName(o.Name) {
				isKnown = i
			}
		}
		if isKnown >= 0 {
			if !ok {
				knownHit[isKnown] = true
				suspended = append(suspended, o)
				continue
			}
		}
		total++
		if ok {
			discharged++
			if r := byFn[o.Fn]; r != nil {
				r.Discharged++
			}
			if o.Ms > slowest {
				slowest, slowestName = o.Ms, o.Name
			}
		} else {
			failed = append(failed, o)
		}
	}
	failed = append(failed, v.deadReturns(obls)...)
	// bounded stand-ins of the assumed contracts of functions outside the verifier's reach (reflection):
	// run on the real code, labelled bounded, never counted as proved
	bounded, bfail := runBounded(*repo, *verif, *prop, work)
	failed = append(failed, bfail...)
	for fn, rc := range retCover {
		if rc[0] > 0 && rc[0] == rc[1] {
			failed = append(failed, &Obligation{Name: fn + "/cover:no-return-reachable", Fn: fn, Kind: "cover", Result: "unsat",
				Output: "no return of the function is reachable under its contract: the proof would be vacuous"})
		}
	}
	for _, e := range engineErrs {
		failed = append(failed, &Obligation{Name: "engine/" + sanitize(e), Fn: "engine", Kind: "engine-error", Result: "error", Output: e})
	}
	if nfun == 0 && len(obls) == 0 {
		failed = append(failed, &Obligation{Name: "engine/no-obligations", Kind: "engine-error", Result: "error", Output: "no function under contract serves " + *prop})
	}

	// report
	exit := 0
	for i, k := range known.Findings {
		if k.Status != "open" || k.Property != *prop {
			continue
		}
		if knownHit[i] {
			fmt.Printf("KNOWN-FINDING: property=%s %s: %s\n", *prop, k.Obligation, k.What)
		} else {
			fmt.Printf("KNOWN-FINDING-GONE: property=%s %s now discharges (listed as open)\n", *prop, k.Obligation)
		}
	}
	replayDir := filepath.Join(*outDir, "replays", *prop)
	os.RemoveAll(replayDir)
	sort.Slice(failed, func(i, j int) bool { return failed[i].Name < failed[j].Name })
	for _, o := range failed {
		exit = 1
		os.MkdirAll(replayDir, 0755)
		rp := filepath.Join(replayDir, sanitize(o.Name)+".json")
		rep := v.makeReplay(o, *repo)
		b, _ := json.MarshalIndent(rep, "", " ")
		os.WriteFile(rp, b, 0644)
		suffix := ""
		if rep.Outcome != "confirmed" {
			suffix = " no-failing-input-found"
		}
		fmt.Printf("VIOLATION property=%s replay=%s obligation=%s result=%s%s\n", *prop, rp, o.Name, o.Result, suffix)
	}
	// evidence
	var samples []interface{}
	for i, o := range obls {
		if len(samples) >= 3 {
			break
		}
		if !o.IsCover && o.Result == "unsat" && (strings.HasPrefix(o.Kind, "post") || i%7 == 0) {
			smt := o.Goal.S
			if len(smt) > 600 {
				smt = smt[:600] + "..."
			}
			samples = append(samples, map[string]interface{}{"obligation": o.Name, "kind": o.Kind, "source": o.Src, "ssa_block_path": o.Trace,
				"negated_goal_smt": smt, "path_assertions": len(o.Cmds), "solver": o.Solver, "ms": o.Ms})
		}
	}
	if len(samples) == 0 {
		samples = append(samples, map[string]interface{}{"note": "no discharged obligation to sample"})
	}
	var tb []string
	for k := range trusted {
		tb = append(tb, k)
	}
	sort.Strings(tb)
	tb = append([]string{"go/packages + go/ssa (x/tools v0.29.0) SSA construction", "sodvc SSA-to-SMT translation (/verif/sodvc)", "z3 5.1.0 / cvc5 1.0.3 / z3 4.8.12",
		"meta lemmas of DESIGN.md section 3 connecting per-function contracts to the history-level statement"}, tb...)
	bySolver := map[string]int{}
	for _, o := range obls {
		if !o.IsCover && o.Result == "unsat" {
			bySolver[o.Solver]++
		}
	}
	var susp []string
	for _, o := range suspended {
		susp = append(susp, o.Name)
	}
	var failedNames []string
	for _, o := range failed {
		failedNames = append(failedNames, o.Name)
	}
	assumptions = append(assumptions,
		"integers are mathematical with a no-overflow obligation on every + - * of the functions under contract (amd64, int = 64 bit)",
		"slice invariants 0 <= len <= cap <= 2^56; append growth unspecified but sufficient; copy = memmove",
		"quantifier instantiation is by E-matching on element/key access terms: incomplete, never unsound; an undischarged obligation is reported as a violation",
		"go statements, channels: no interleaving semantics (see DESIGN.md 1.2)")
	ev := map[string]interface{}{
		"property_id": *prop, "tier": *tier, "seed": seed, "level": "proof",
		"coverage": map[string]interface{}{
			"obligations": total, "discharged": discharged,
			"checker_cmd":  fmt.Sprintf("/verif/bin/sodvc check -prop %s -tier %s (VCs from go/ssa of %s, discharged by z3-new|cvc5|z3)", *prop, *tier, *repo),
			"trusted_base": tb, "samples": samples,
			"functions_under_contract": reports, "covers_checked": covers,
			"suspended_by_known_findings": susp, "failed": failedNames,
			"discharged_by_solver": bySolver, "slowest_ms": slowest, "slowest_obligation": slowestName,
			"bounded_standins": bounded,
			"per_obligation_timeout_ms": timeout, "all_solvers_cross_checked": all, "obligations_retried_with_3x_budget": retried,
		},
		"assumptions": assumptions,
		"wall_s":      time.Since(t0).Seconds(),
		"violations":  len(failed),
	}
	os.MkdirAll(filepath.Join(*outDir, "evidence"), 0755)
	b, _ := json.MarshalIndent(ev, "", " ")
	os.WriteFile(filepath.Join(*outDir, "evidence", *prop+".json"), b, 0644)
	fmt.Printf("%s %s: selection: %d of %d generated obligations (%d by wide mode)\n", *prop, *tier, len(obls), nAll, nWide)
	fmt.Printf("%s %s: %d functions under contract, %d/%d obligations discharged, %d suspended by known findings, %d failed, %.1fs\n",
		*prop, *tier, nfun, discharged, total, len(suspended), len(failed), time.Since(t0).Seconds())
	if exit != 0 {
		os.Exit(1)
	}
}

func writeEngineFailure(verif, prop, tier string, seed int, msg string, t0 time.Time) {
	os.MkdirAll(filepath.Join(verif, "replays", prop), 0755)
	rp := filepath.Join(verif, "replays", prop, "engine.json")
	b, _ := json.MarshalIndent(map[string]interface{}{"obligation": "engine/load", "output": msg, "outcome": "not-replayed"}, "", " ")
	os.WriteFile(rp, b, 0644)
	fmt.Printf("VIOLATION property=%s replay=%s obligation=engine/load no-failing-input-found\n", prop, rp)
	ev := map[string]interface{}{"property_id": prop, "tier": tier, "seed": seed, "level": "proof",
		"coverage": map[string]interface{}{"obligations": 1, "discharged": 0, "checker_cmd": "sodvc check", "trusted_base": []string{}, "samples": []interface{}{msg}},
		"wall_s":   time.Since(t0).Seconds(), "violations": 1}
	os.MkdirAll(filepath.Join(verif, "evidence"), 0755)
	b, _ = json.MarshalIndent(ev, "", " ")
	os.WriteFile(filepath.Join(verif, "evidence", prop+".json"), b, 0644)
}

// Replay is the content of a replay file.
type Replay struct {
	Obligation string `json:"obligation"`
	Function   string `json:"function"`
	Kind       string `json:"kind"`
	Source     string `json:"source"`
	Result     string `json:"solver_result"`
	Output     string `json:"solver_output"`
	Trace      []int  `json:"ssa_block_path"`
	Goal       string `json:"negated_goal_smt"`
	Test       string `json:"generated_test,omitempty"`
	TestOutput string `json:"test_output,omitempty"`
	Outcome    string `json:"outcome"` // confirmed | not-reproduced | not-replayed
	Note       string `json:"note,omitempty"`
}

func (v *Verifier) makeReplay(o *Obligation, repo string) *Replay {
	out := o.Output
	if len(out) > 20000 {
		out = out[:20000] + "\n...[truncated]"
	}
	r := &Replay{Obligation: o.Name, Function: o.Fn, Kind: o.Kind, Source: o.Src, Result: o.Result, Output: out, Trace: o.Trace, Goal: o.Goal.S, Outcome: "not-replayed"}
	if o.Kind == "bounded" {
		// a bounded stand-in failed: the test output shows the failing input on the real code
		r.Outcome = "confirmed"
		r.Note = "bounded stand-in (go test -overlay on the repository): the output above names the failing case"
		return r
	}
	if o.Result != "sat" {
		r.Note = "the solver returned no model (" + o.Result + "): the obligation is undischarged; no failing input found"
		return r
	}
	v.replayModel(o, r, repo)
	return r
}

// deadReturns is the vacuity guard at return statements: a return statement none of whose paths is
// feasible is either dead code (declared so in the contract: "dead return N") or the sign of
// contradictory assumptions on the way to it (a proof through it would be vacuous).
func (v *Verifier) deadReturns(obls []*Obligation) []*Obligation {
	type key struct {
		fn   string
		site int
	}
	tot, dead := map[key]int{}, map[key]int{}
	src := map[key]string{}
	for _, o := range obls {
		if o.IsCover && o.Kind == "cover" && strings.Contains(o.Name, "cover:return") {
			k := key{o.Fn, o.RetSite}
			tot[k]++
			src[k] = o.Src
			if o.Result == "unsat" {
				dead[k]++
			}
		}
	}
	var out []*Obligation
	for k, n := range tot {
		declared := false
		if c := v.spec.Contracts[k.fn]; c != nil {
			_, declared = c.DeadRets[k.site]
		}
		if dead[k] == n && !declared {
			out = append(out, &Obligation{Name: fmt.Sprintf("%s/cover:dead-return#%d", k.fn, k.site), Fn: k.fn, Kind: "cover", Result: "unsat", Src: src[k],
				Output: fmt.Sprintf("return statement %d (%s) is unreachable on all %d paths under the contract and is not declared dead: dead code, or contradictory assumptions (vacuous proof)", k.site, src[k], n)})
		}
	}
	sort.Slice(out, func(i, j int) bool { return out[i].Name < out[j].Name })
	return out
}

type standin struct {
	Test       string   `json:"test"`
	Functions  []string `json:"functions"`
	Properties []string `json:"properties"`
}

// runBounded runs the bounded stand-ins serving the property against the repository (go test with an
// overlay: nothing is written into the repository). A failing stand-in is a violation of the assumed
// contract of a function the proofs rely on.
func runBounded(repo, verif, prop, work string) ([]map[string]interface{}, []*Obligation) {
	var all []standin
	b, err := os.ReadFile(filepath.Join(verif, "bounded", "standins.json"))
	if err != nil {
		return nil, nil
	}
	if json.Unmarshal(b, &all) != nil {
		return nil, []*Obligation{{Name: "bounded/standins.json", Kind: "engine-error", Result: "error", Output: "cannot parse bounded/standins.json"}}
	}
	var sel []standin
	for _, s := range all {
		if hasProp(s.Properties, prop) {
			sel = append(sel, s)
		}
	}
	if len(sel) == 0 {
		return nil, nil
	}
	files, _ := filepath.Glob(filepath.Join(verif, "bounded", "*_test.go"))
	ov := map[string]map[string]string{"Replace": {}}
	for _, f := range files {
		ov["Replace"][filepath.Join(repo, "zz_"+filepath.Base(f))] = f
	}
	ob, _ := json.Marshal(ov)
	ovFile := filepath.Join(work, "bounded_overlay.json")
	os.WriteFile(ovFile, ob, 0644)
	var names []string
	for _, s := range sel {
		names = append(names, s.Test)
	}
	ctx, cancel := context.WithTimeout(context.Background(), 5*time.Minute)
	defer cancel()
	cmd := exec.CommandContext(ctx, "go", "test", "-overlay", ovFile, "-vet=off", "-count=1", "-timeout", "240s", "-run", "^("+strings.Join(names, "|")+")$", "-v", ".")
	cmd.Dir = repo
	cmd.Env = append(os.Environ(), "GOFLAGS=-mod=mod", "GOPROXY=off", "GOSUMDB=off", "GOTOOLCHAIN=local")
	var out bytes.Buffer
	cmd.Stdout, cmd.Stderr = &out, &out
	cmd.Run()
	text := out.String()
	var res []map[string]interface{}
	var failed []*Obligation
	for _, s := range sel {
		r := map[string]interface{}{"test": s.Test, "functions": s.Functions, "label": "bounded stand-in on the real code: NOT counted as proved"}
		status := "not-run"
		if strings.Contains(text, "--- PASS: "+s.Test+" ") {
			status = "pass"
		} else if strings.Contains(text, "--- FAIL: "+s.Test+" ") {
			status = "fail"
		}
		r["result"] = status
		for _, l := range strings.Split(text, "\n") {
			if i := strings.Index(l, "BOUNDED function="); i >= 0 && strings.Contains(text, s.Test) {
				// the BOUNDED line of this test follows its RUN line: match by position
				_ = i
			}
		}
		// the BOUNDED line printed by the test
		if i := strings.Index(text, "=== RUN   "+s.Test+"\n"); i >= 0 {
			seg := text[i:]
			if j := strings.Index(seg, "--- "); j >= 0 {
				seg = seg[:j]
			}
			if k := strings.Index(seg, "BOUNDED "); k >= 0 {
				line := seg[k:]
				if e := strings.Index(line, "\n"); e >= 0 {
					line = line[:e]
				}
				r["reported"] = line
				var n int
				if c := strings.Index(line, "cases="); c >= 0 {
					fmt.Sscanf(line[c:], "cases=%d", &n)
				}
				r["cases"] = n
			}
		}
		res = append(res, r)
		if status != "pass" {
			failed = append(failed, &Obligation{Name: "bounded/" + s.Test, Fn: strings.Join(s.Functions, ","), Kind: "bounded", Result: status,
				Output: "bounded stand-in of the assumed contract of " + strings.Join(s.Functions, ", ") + " fails on the real code:\n" + firstLines(text, 60)})
		}
	}
	return res, failed
}
