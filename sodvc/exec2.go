package main

import (
	"os"
	"fmt"
	"go/token"
	"go/types"
	"sort"
	"strings"

	"golang.org/x/tools/go/ssa"
)

const maxPaths = 3000

// seedRegisters: also use every int-valued SSA register as an instantiation seed
// (off: element accesses and goal skolems are the triggers)
var seedRegisters = true

type workItem struct {
	st   *State
	b    *ssa.BasicBlock
	pred *ssa.BasicBlock
}

// isLoopHeader: some predecessor is dominated by b.
func isLoopHeader(b *ssa.BasicBlock) bool {
	for _, p := range b.Preds {
		if b.Dominates(p) {
			return true
		}
	}
	return false
}

// loopBlocks returns the natural loop of header h.
func loopBlocks(h *ssa.BasicBlock) map[int]*ssa.BasicBlock {
	body := map[int]*ssa.BasicBlock{h.Index: h}
	var stack []*ssa.BasicBlock
	for _, p := range h.Preds {
		if h.Dominates(p) {
			if _, ok := body[p.Index]; !ok {
				body[p.Index] = p
				stack = append(stack, p)
			}
		}
	}
	for len(stack) > 0 {
		n := stack[len(stack)-1]
		stack = stack[:len(stack)-1]
		for _, p := range n.Preds {
			if _, ok := body[p.Index]; !ok {
				body[p.Index] = p
				stack = append(stack, p)
			}
		}
	}
	return body
}

func (r *funcRun) run() {
	fn := r.fn
	// loop ordinals
	r.loopOrd = map[int]int{}
	n := 0
	for _, b := range fn.Blocks {
		if isLoopHeader(b) {
			n++
			r.loopOrd[b.Index] = n
		}
	}
	for ord := range r.c.Loops {
		if ord < 1 || ord > n {
			panic(unsupported(fmt.Sprintf("contract names loop %d but the function has %d loops", ord, n)))
		}
	}
	st := r.entryState()
	if st == nil {
		return
	}
	work := []workItem{{st, fn.Blocks[0], nil}}
	for len(work) > 0 {
		it := work[len(work)-1]
		work = work[:len(work)-1]
		r.paths++
		if r.paths > maxPaths {
			panic(unsupported("path limit exceeded"))
		}
		next := r.execBlock(it.st, it.b, it.pred)
		work = append(work, next...)
	}
}

func (r *funcRun) execBlock(st *State, b *ssa.BasicBlock, pred *ssa.BasicBlock) []workItem {
	st.trace = append(st.trace, b.Index)
	// phis
	var phis []*ssa.Phi
	for _, in := range b.Instrs {
		if p, ok := in.(*ssa.Phi); ok {
			phis = append(phis, p)
		} else if _, ok := in.(*ssa.DebugRef); !ok {
			break
		}
	}
	predIdx := -1
	if pred != nil {
		for i, p := range b.Preds {
			if p == pred {
				predIdx = i
			}
		}
	}
	header := isLoopHeader(b)
	backEdge := header && pred != nil && b.Dominates(pred) && st.loops[b.Index]
	// evaluate phi inputs for this edge (simultaneously)
	phiVals := make([]Value, len(phis))
	for i, p := range phis {
		if predIdx >= 0 {
			phiVals[i] = r.val(st, p.Edges[predIdx])
		}
	}
	if header {
		ord := r.loopOrd[b.Index]
		ls := r.c.Loops[ord]
		if ls == nil {
			panic(unsupported(fmt.Sprintf("loop %d (block %d) has no invariant", ord, b.Index)))
		}
		// bind phi names for invariant evaluation
		bind := func(s *State, vals []Value) {
			for i, p := range phis {
				s.regs[p.Name()] = vals[i]
				r.seedValue(s, p)
				if p.Comment != "" {
					s.names[p.Comment] = vals[i]
					s.ntypes[p.Comment] = p.Type()
				}
			}
		}
		if backEdge {
			// measure at loop head was saved in names
			// ghost updates are evaluated with the values at the end of the iteration
			newGhosts := map[string]tval{}
			for _, g := range ls.Ghosts {
				if g.Upd != "" {
					newGhosts[g.Name] = r.ghostUpdate(st, g)
				}
			}
			bind(st, phiVals)
			for n, tv := range newGhosts {
				st.names[n] = tv.V
				st.ntypes[n] = tv.T
			}
			for k, inv := range ls.Invariants {
				r.emitGoal(st, "inv-preserved", fmt.Sprintf("=loop%d.%s", ord, clauseID(inv, k)), inv.Props, inv.Expr, nil, r.old, r.baseVars(st), inv.Src)
				// cut: later invariants may use the earlier ones (each was just proved on this path)
				st.assume(r.evalBool(st, inv.Expr, r.old, nil, inv.Src))
			}
			for k, d := range ls.Decreases {
				m := r.evalInt(st, d.Expr, r.old, d.Src)
				m0, ok := st.names[fmt.Sprintf("$measure%d.%d", ord, k)].(Term)
				if ok {
					r.emit(st, "loop-decreases", fmt.Sprintf("=loop%d.%d", ord, k), []string{"C09", "C19"}, And(Le(IntLit(0), m0), Lt(m, m0)), d.Src)
				}
			}
			return nil
		}
		if ls.Cut {
			// cut point: the invariants are checked on every arriving path (with the local names bound as the
			// dominating definitions bind them); the body and the rest of the function are explored once, from
			// a state that knows the preconditions and the invariants only.
			as := st.clone()
			r.rebindDominating(as, b)
			bind(as, phiVals)
			r.loopEntrySetup(as, ls, false)
			for k, inv := range ls.Invariants {
				r.emitGoal(as, "inv-entry", fmt.Sprintf("=loop%d.%s", ord, clauseID(inv, k)), inv.Props, inv.Expr, nil, r.old, r.baseVars(as), inv.Src)
				as.assume(r.evalBool(as, inv.Expr, r.old, nil, inv.Src))
			}
			if r.cutDone[b.Index] {
				return nil
			}
			r.cutDone[b.Index] = true
			cs := r.cutState(st, b)
			*st = *cs
			// an arbitrary loop-entry state (what snapshots and lets refer to) ...
			hv0 := make([]Value, len(phis))
			for i, p := range phis {
				hv0[i] = r.v.freshValue(st, "phi0_"+p.Comment+"_"+p.Name(), p.Type())
			}
			bind(st, hv0)
			r.loopEntrySetup(st, ls, true)
			// ... and an arbitrary current state related to it by the invariants only
			r.cutHavoc(st, st.alloc)
			hv := make([]Value, len(phis))
			for i, p := range phis {
				hv[i] = r.v.freshValue(st, "phi_"+p.Comment+"_"+p.Name(), p.Type())
			}
			bind(st, hv)
			for _, g := range ls.Ghosts {
				st.names[g.Name] = r.v.freshValue(st, "lg_"+g.Name, st.ntypes[g.Name])
			}
			for _, inv := range ls.Invariants {
				st.assume(r.evalBool(st, inv.Expr, r.old, nil, inv.Src))
			}
			for k, d := range ls.Decreases {
				m := r.evalInt(st, d.Expr, r.old, d.Src)
				c := st.freshConst("measure", SInt)
				st.assume(Ident(c, m))
				st.names[fmt.Sprintf("$measure%d.%d", ord, k)] = c
			}
			if len(ls.Decreases) == 0 {
				r.note(fmt.Sprintf("loop %d has no decreases clause: termination not proved", ord))
			}
			st.loops[b.Index] = true
			goto body
		}
		// first arrival
		bind(st, phiVals)
		for _, sn := range ls.Snaps {
			st.snaps[sn] = st.snap()
		}
		for _, l := range ls.Lets {
			c := &evalCtx{r: r, st: st, old: r.old, vars: r.baseVars(st), src: r.c.Src}
			tv := c.evalStr(l.Expr)
			st.names[l.Name] = tv.V
			st.ntypes[l.Name] = tv.T
		}
		for _, g := range ls.Ghosts {
			c := &evalCtx{r: r, st: st, old: r.old, vars: r.baseVars(st), src: g.Src}
			t := c.parseType(g.Type)
			if g.Init != "" {
				tv := c.evalStr(g.Init)
				st.names[g.Name], st.ntypes[g.Name] = tv.V, t
			} else {
				st.names[g.Name], st.ntypes[g.Name] = r.v.freshValue(st, "lg_"+g.Name, t), t
			}
		}
		for k, inv := range ls.Invariants {
			r.emitGoal(st, "inv-entry", fmt.Sprintf("=loop%d.%s", ord, clauseID(inv, k)), inv.Props, inv.Expr, nil, r.old, r.baseVars(st), inv.Src)
			st.assume(r.evalBool(st, inv.Expr, r.old, nil, inv.Src))
		}
		// havoc (allocation counter first: the new versions may hold references allocated in the loop)
		entryAlloc := st.alloc
		st.bumpAlloc()
		localOnly := r.loopLocalOnly(b)
		lw := r.loopWrites(b)
		for _, c := range lw {
			if c == everything {
				// a call without contract in the loop: nothing is known at the loop head
				st.havocAll()
				r.havocGhostVars(st)
				lw = nil
				break
			}
		}
		for _, c := range lw {
			if localOnly[c] {
				// every write to this component in the loop goes through a local of this function
				// (allocated after entry): what existed at entry keeps its value
				if sig, ok := st.compSig[c]; ok && strings.HasPrefix(sig, "(Array Int ") {
					before := st.comp(c, sig)
					st.havocComp(c)
					after := st.comp(c, sig)
					st.assume(r.frameFormula(sig, after, before, r.old.alloc, nil, true))
					continue
				}
			}
			st.havocComp(c)
		}
		// components the callees of the loop write only at references they allocate: what existed at
		// loop entry keeps its value, newer references are unknown
		{
			var lb []*ssa.BasicBlock
			for _, x := range loopBlocks(b) {
				lb = append(lb, x)
			}
			full, _, freshOnly := r.blockSetWrites(lb)
			if !full[everything] && !(r.c.Loops[ord] != nil && r.c.Loops[ord].HasMod) {
				names := make([]string, 0, len(freshOnly))
				for c := range freshOnly {
					names = append(names, c)
				}
				sort.Strings(names)
				for _, c := range names {
					if !localOnly[c] {
						r.havocFresh(st, c, entryAlloc)
					}
				}
			}
		}
		hv := make([]Value, len(phis))
		for i, p := range phis {
			hv[i] = r.v.freshValue(st, "phi_"+p.Comment+"_"+p.Name(), p.Type())
		}
		bind(st, hv)
		for _, g := range ls.Ghosts {
			st.names[g.Name] = r.v.freshValue(st, "lg_"+g.Name, st.ntypes[g.Name])
		}
		for _, inv := range ls.Invariants {
			st.assume(r.evalBool(st, inv.Expr, r.old, nil, inv.Src))
		}
		for k, d := range ls.Decreases {
			m := r.evalInt(st, d.Expr, r.old, d.Src)
			c := st.freshConst("measure", SInt)
			st.assume(Ident(c, m))
			st.names[fmt.Sprintf("$measure%d.%d", ord, k)] = c
		}
		if len(ls.Decreases) == 0 {
			r.note(fmt.Sprintf("loop %d has no decreases clause: termination not proved", ord))
		}
		st.loops[b.Index] = true
		// cover: loop body reachable / exit reachable is checked by cover queries at the branch
	} else {
		for i, p := range phis {
			st.regs[p.Name()] = phiVals[i]
			r.seedValue(st, p)
			if p.Comment != "" {
				st.names[p.Comment] = phiVals[i]
				st.ntypes[p.Comment] = p.Type()
			}
		}
	}
body:
	for _, in := range b.Instrs {
		if _, ok := in.(*ssa.Phi); ok {
			continue
		}
		next, done := r.step(st, in, b)
		if done {
			return next
		}
		if val, ok := in.(ssa.Value); ok {
			r.seedValue(st, val)
		}
	}
	return nil
}

// seedValue registers integer-valued registers as quantifier instantiation seeds.
func (r *funcRun) seedValue(st *State, val ssa.Value) {
	if !seedRegisters {
		return
	}
	v, ok := st.regs[val.Name()]
	if !ok {
		return
	}
	var rec func(v Value, t types.Type)
	rec = func(v Value, t types.Type) {
		switch x := v.(type) {
		case Term:
			if b, ok := t.Underlying().(*types.Basic); ok && b.Kind() == types.Int && x.Sort == SInt {
				st.seed(x)
			}
		case *TupleVal:
			if tp, ok := t.(*types.Tuple); ok {
				for i, e := range x.E {
					if i < tp.Len() {
						rec(e, tp.At(i).Type())
					}
				}
			}
		}
	}
	rec(v, val.Type())
}

// ghostUpdate computes the new value of a loop ghost at a back edge.
func (r *funcRun) ghostUpdate(st *State, g *LoopGhost) tval {
	c := &evalCtx{r: r, st: st, old: r.old, vars: r.baseVars(st), src: g.Src}
	t := st.ntypes[g.Name]
	if g.Var == "" {
		tv := c.evalStr(g.Upd)
		return tval{tv.V, t}
	}
	mt, ok := t.(*types.Map)
	if !ok || !r.v.ghostArrays[t] {
		c.fail("loop ghost %s is not a ghost array", g.Name)
	}
	ks, _ := r.v.leafSort(mt.Key())
	as, _ := r.v.leafSort(t)
	A := st.freshConst("lg_"+g.Name, as)
	*st.fresh++
	q := fmt.Sprintf("q_%s%d", g.Var, *st.fresh)
	body := c.bind(g.Var, tval{Term{S: q, Sort: ks}, mt.Key()}).evalStr(g.Upd)
	st.cmds = append(st.cmds, fmt.Sprintf("(assert (forall ((%s %s)) (! (= (select %s %s) %s) :pattern ((select %s %s)))))", q, string(ks), A.S, q, body.V.(Term).S, A.S, q))
	return tval{A, t}
}

func clauseID(c Clause, k int) string {
	if c.Label != "" {
		return strings.ReplaceAll(c.Label, " ", "_")
	}
	return fmt.Sprintf("%d", k+1)
}

// loopWrites: components possibly written in the natural loop of h.
func (r *funcRun) loopWrites(h *ssa.BasicBlock) []string {
	ord := r.loopOrd[h.Index]
	if ls := r.c.Loops[ord]; ls != nil && ls.HasMod {
		return ls.Modifies
	}
	set := map[string]bool{}
	for _, b := range loopBlocks(h) {
		for _, in := range b.Instrs {
			for _, c := range r.writesOf(in) {
				set[c] = true
			}
		}
	}
	out := make([]string, 0, len(set))
	for c := range set {
		out = append(out, c)
	}
	sort.Strings(out)
	return out
}

// loopLocalOnly: components whose every write in the loop is a store through an address rooted
// at an Alloc of this function (a local variable), and that no callee modifies.
func (r *funcRun) loopLocalOnly(h *ssa.BasicBlock) map[string]bool {
	local := map[string]bool{}
	other := map[string]bool{}
	var rooted func(a ssa.Value) bool
	rooted = func(a ssa.Value) bool {
		switch x := a.(type) {
		case *ssa.Alloc:
			return true
		case *ssa.FieldAddr:
			return rooted(x.X)
		}
		return false
	}
	for _, b := range loopBlocks(h) {
		for _, in := range b.Instrs {
			if st, ok := in.(*ssa.Store); ok && rooted(st.Addr) {
				for _, c := range r.addrComps(st.Addr) {
					local[c] = true
				}
				continue
			}
			for _, c := range r.writesOf(in) {
				other[c] = true
			}
		}
	}
	for c := range other {
		delete(local, c)
	}
	if other[everything] {
		return map[string]bool{}
	}
	return local
}

const everything = "*"

// allocsOf: components a callee may write at references it allocates itself (its "allocates" clause).
func (r *funcRun) allocsOf(in ssa.Instruction) []string {
	var cc *ssa.CallCommon
	switch x := in.(type) {
	case *ssa.Call:
		cc = &x.Call
	case *ssa.Defer:
		cc = &x.Call
	default:
		return nil
	}
	if _, ok := cc.Value.(*ssa.Builtin); ok {
		return nil
	}
	c := r.v.contractForCall(cc)
	if c == nil {
		return nil
	}
	return r.v.expandMods(c.Allocates)
}

// havocFresh gives component c a new version that agrees with the current one at every reference
// allocated up to bound (the component was written at newer references only).
func (r *funcRun) havocFresh(st *State, c string, bound Term) {
	sig, ok := st.compSig[c]
	if !ok && st.sigOf != nil {
		if sg, found := st.sigOf(c); found {
			st.compSig[c] = sg
			sig, ok = sg, true
		}
	}
	if !ok || !strings.HasPrefix(sig, "(Array Int ") {
		st.havocComp(c)
		return
	}
	before := st.comp(c, sig)
	st.havocComp(c)
	after := st.comp(c, sig)
	st.assume(r.frameFormula(sig, after, before, bound, nil, true))
}

// blockSetWrites classifies the components written by the instructions of the blocks: written anywhere
// (full), only through local cells of this function (local), only at references callees allocate (fresh).
func (r *funcRun) blockSetWrites(blocks []*ssa.BasicBlock) (full map[string]bool, local map[string]bool, fresh map[string]bool) {
	full, local, fresh = map[string]bool{}, map[string]bool{}, map[string]bool{}
	var rooted func(a ssa.Value) bool
	rooted = func(a ssa.Value) bool {
		switch x := a.(type) {
		case *ssa.Alloc:
			return true
		case *ssa.FieldAddr:
			return rooted(x.X)
		case *ssa.IndexAddr:
			// element of a local array (e.g. the argument array of a variadic call)
			if _, isPtr := x.X.Type().Underlying().(*types.Pointer); isPtr {
				return rooted(x.X)
			}
		}
		return false
	}
	for _, b := range blocks {
		for _, in := range b.Instrs {
			if st, ok := in.(*ssa.Store); ok && rooted(st.Addr) {
				for _, c := range r.addrComps(st.Addr) {
					local[c] = true
				}
				continue
			}
			for _, c := range r.writesOf(in) {
				if c == everything && os.Getenv("SODVC_DEBUG") != "" {
					fmt.Fprintf(os.Stderr, "everything: %s in %s\n", in.String(), r.fn.Name())
				}
				full[c] = true
			}
			for _, c := range r.allocsOf(in) {
				fresh[c] = true
			}
		}
	}
	for c := range full {
		delete(local, c)
		delete(fresh, c)
	}
	return
}

// staticLocComps: leaf components a store through the address may write.
func (r *funcRun) addrComps(a ssa.Value) []string {
	pt, ok := a.Type().Underlying().(*types.Pointer)
	if !ok {
		return []string{everything}
	}
	elem := pt.Elem()
	switch x := a.(type) {
	case *ssa.FieldAddr:
		prefixes := r.addrPrefixes(x)
		var out []string
		for _, p := range prefixes {
			out = append(out, r.v.leafComps(p, elem)...)
		}
		return out
	case *ssa.IndexAddr:
		var et types.Type
		switch u := x.X.Type().Underlying().(type) {
		case *types.Slice:
			et = u.Elem()
		case *types.Pointer:
			et = u.Elem().Underlying().(*types.Array).Elem()
		default:
			return []string{everything}
		}
		return r.v.leafComps("Elem["+typeString(et)+"]", et)
	case *ssa.Global:
		return r.v.leafComps(r.globalLoc(x).Prefix, elem)
	}
	// Alloc, Parameter, loaded pointer, call result ...
	if classify(elem) == kStruct && !r.v.opaqueStruct(elem) {
		return r.v.leafComps(r.v.structName(elem), elem)
	}
	return []string{"Cell[" + typeString(elem) + "]"}
}

// addrPrefixes: component prefix of a FieldAddr chain.
func (r *funcRun) addrPrefixes(x *ssa.FieldAddr) []string {
	st := x.X.Type().Underlying().(*types.Pointer).Elem()
	fname := st.Underlying().(*types.Struct).Field(x.Field).Name()
	if inner, ok := x.X.(*ssa.FieldAddr); ok {
		var out []string
		for _, p := range r.addrPrefixes(inner) {
			out = append(out, p+"."+fname)
		}
		return out
	}
	if _, ok := x.X.(*ssa.IndexAddr); ok {
		return []string{"Elem[" + typeString(st) + "]." + fname}
	}
	return []string{r.v.structName(st) + "." + fname}
}

func (r *funcRun) writesOf(in ssa.Instruction) []string {
	switch x := in.(type) {
	case *ssa.Store:
		return r.addrComps(x.Addr)
	case *ssa.MapUpdate:
		mi := r.v.mapInfo(x.Map.Type().Underlying().(*types.Map))
		return append([]string{mi.dom, "MapCard[" + strings.TrimPrefix(mi.dom, "MapDom[")}, r.v.mapValComps(mi)...)
	case *ssa.Next:
		if rg, ok := x.Iter.(*ssa.Range); ok {
			if mt, ok := rg.X.Type().Underlying().(*types.Map); ok {
				name, _ := r.iterComp(r.v.mapInfo(mt).ksort)
				return []string{name}
			}
		}
		return nil
	case *ssa.Range:
		if mt, ok := x.X.Type().Underlying().(*types.Map); ok {
			name, _ := r.iterComp(r.v.mapInfo(mt).ksort)
			return []string{name}
		}
		return nil
	case *ssa.Call:
		return r.callWrites(&x.Call)
	case *ssa.Defer:
		return r.callWrites(&x.Call)
	case *ssa.Go:
		return nil
	case *ssa.RunDefers:
		return []string{everything}
	case *ssa.Send:
		return []string{everything}
	}
	return nil
}

func (r *funcRun) callWrites(cc *ssa.CallCommon) []string {
	if b, ok := cc.Value.(*ssa.Builtin); ok {
		switch b.Name() {
		case "append", "copy":
			if sl, ok := cc.Args[0].Type().Underlying().(*types.Slice); ok {
				return r.v.leafComps("Elem["+typeString(sl.Elem())+"]", sl.Elem())
			}
			return []string{everything}
		case "delete":
			mi := r.v.mapInfo(cc.Args[0].Type().Underlying().(*types.Map))
			return []string{mi.dom, "MapCard[" + strings.TrimPrefix(mi.dom, "MapDom[")}
		}
		return nil
	}
	if fn := cc.StaticCallee(); fn != nil {
		switch full := fn.String(); {
		case full == "fmt.Errorf":
			return nil // modelled: a fresh error value, no write
		case full == "fmt.Sprintf":
			if _, isConst := cc.Args[0].(*ssa.Const); isConst {
				return nil
			}
		case strings.HasPrefix(full, "(*sync.RWMutex).") || strings.HasPrefix(full, "(*sync.Mutex)."):
			// lock operations change the lock typestate ghosts only
			var gs []string
			for g := range r.v.spec.GhostVars {
				gs = append(gs, "Ghost."+g)
			}
			sort.Strings(gs)
			return gs
		}
	}
	c := r.v.contractForCall(cc)
	if c == nil || !c.HasMod {
		if c != nil && c.Inline {
			if fn := cc.StaticCallee(); fn != nil {
				set := map[string]bool{}
				sub := &funcRun{v: r.v, fn: fn, c: c}
				for _, b := range fn.Blocks {
					for _, in := range b.Instrs {
						for _, w := range sub.writesOf(in) {
							set[w] = true
						}
					}
				}
				var out []string
				for w := range set {
					out = append(out, w)
				}
				return out
			}
		}
		return []string{everything}
	}
	return r.v.expandMods(c.Modifies)
}

// step executes one instruction; done=true when the block ended.
func (r *funcRun) step(st *State, in ssa.Instruction, b *ssa.BasicBlock) ([]workItem, bool) {
	switch x := in.(type) {
	case *ssa.DebugRef:
		if vr, isVar := x.Object().(*types.Var); isVar && vr.IsField() {
			// a selector expression: the "object" is a struct field, not a local variable
			return nil, false
		}
		if x.IsAddr {
			if obj := x.Object(); obj != nil {
				if v, ok := st.regs[x.X.Name()]; ok {
					st.names["&"+obj.Name()] = v
					st.ntypes["&"+obj.Name()] = x.X.Type()
				}
			}
		}
		if !x.IsAddr {
			if id, ok := x.Expr.(interface{ String() string }); ok {
				_ = id
			}
			if obj := x.Object(); obj != nil {
				if v, ok := st.regs[x.X.Name()]; ok {
					st.names[obj.Name()] = v
					st.ntypes[obj.Name()] = obj.Type()
				} else if c, ok := x.X.(*ssa.Const); ok {
					st.names[obj.Name()] = r.constVal(c)
					st.ntypes[obj.Name()] = obj.Type()
				}
			}
		}
		return nil, false
	case *ssa.Alloc:
		elem := x.Type().(*types.Pointer).Elem()
		ref := st.newRef("new_" + x.Name())
		st.regs[x.Name()] = ref
		if x.Comment != "" && !strings.ContainsAny(x.Comment, " ()") {
			st.names["&"+x.Comment] = ref
			st.ntypes["&"+x.Comment] = x.Type()
		}
		if classify(elem) == kArray {
			at := elem.Underlying().(*types.Array)
			// zeroed backing array
			r.zeroArray(st, ref, at.Elem())
		} else {
			r.v.writeLoc(st, r.v.derefLoc(ref, elem), r.v.zeroValue(elem))
		}
		return nil, false
	case *ssa.BinOp:
		st.regs[x.Name()] = r.binop(st, x)
		return nil, false
	case *ssa.UnOp:
		st.regs[x.Name()] = r.unop(st, x)
		return nil, false
	case *ssa.Convert:
		st.regs[x.Name()] = r.convert(st, x)
		return nil, false
	case *ssa.ChangeType:
		st.regs[x.Name()] = r.val(st, x.X)
		return nil, false
	case *ssa.ChangeInterface:
		v := r.val(st, x.X)
		fromEmpty := isEmptyInterface(x.X.Type())
		toEmpty := isEmptyInterface(x.Type())
		switch {
		case fromEmpty == toEmpty:
			st.regs[x.Name()] = v
		case toEmpty:
			st.regs[x.Name()] = r.toVal(st, v, x.X.Type())
		default:
			p, _ := r.fromVal(st, v.(Term), x.Type())
			st.regs[x.Name()] = p
		}
		return nil, false
	case *ssa.MakeInterface:
		v := r.val(st, x.X)
		if isEmptyInterface(x.Type()) {
			st.regs[x.Name()] = r.toVal(st, v, x.X.Type())
		} else {
			if t, ok := v.(Term); ok && t.Sort == SInt {
				if _, isPtr := x.X.Type().Underlying().(*types.Pointer); isPtr {
					st.assume(Imp(Not(Ident(t, IntLit(0))), mk(SBool, "(= (dyntype %s) %s)", t.S, typeTag(x.X.Type()).S)))
					st.regs[x.Name()] = t
					return nil, false
				}
			}
			c := st.freshConst("iface", SInt)
			st.assume(Lt(IntLit(0), c))
			st.assume(mk(SBool, "(= (dyntype %s) %s)", c.S, typeTag(x.X.Type()).S))
			st.regs[x.Name()] = c
		}
		return nil, false
	case *ssa.TypeAssert:
		r.typeAssert(st, x)
		return nil, false
	case *ssa.Extract:
		tv, ok := r.val(st, x.Tuple).(*TupleVal)
		if !ok {
			panic(unsupported("extract from non-tuple"))
		}
		st.regs[x.Name()] = tv.E[x.Index]
		return nil, false
	case *ssa.FieldAddr:
		base := r.val(st, x.X)
		stT := x.X.Type().Underlying().(*types.Pointer).Elem()
		if bt, ok := base.(Term); ok {
			r.emit(st, "nil-deref", "", []string{"C19"}, Not(Ident(bt, IntLit(0))), r.pos(x))
			st.assume(Not(Ident(bt, IntLit(0))))
		}
		if r.v.opaqueStruct(stT) {
			panic(unsupported("field of opaque struct " + stT.String()))
		}
		st.regs[x.Name()] = r.v.fieldLoc(base, stT, x.Field)
		return nil, false
	case *ssa.Field:
		sv, ok := r.val(st, x.X).(*StructVal)
		if !ok {
			panic(unsupported("field of non-struct value"))
		}
		st.regs[x.Name()] = sv.F[x.Field]
		return nil, false
	case *ssa.IndexAddr:
		idx := r.term(st, x.Index)
		switch u := x.X.Type().Underlying().(type) {
		case *types.Slice:
			s := r.term(st, x.X)
			r.emit(st, "index-in-range", "", []string{"C19"}, And(Le(IntLit(0), idx), Lt(idx, SlLen(s))), r.pos(x))
			st.assume(And(Le(IntLit(0), idx), Lt(idx, SlLen(s))))
			st.regs[x.Name()] = r.v.elemLoc(SlArr(s), At(s, idx), u.Elem())
		case *types.Pointer:
			at := u.Elem().Underlying().(*types.Array)
			base := r.term(st, x.X)
			r.emit(st, "index-in-range", "", []string{"C19"}, And(Le(IntLit(0), idx), Lt(idx, IntLit(at.Len()))), r.pos(x))
			st.regs[x.Name()] = r.v.elemLoc(base, idx, at.Elem())
		default:
			panic(unsupported("IndexAddr on " + x.X.Type().String()))
		}
		return nil, false
	case *ssa.Index:
		// string or array value index
		if s, ok := r.val(st, x.X).(Term); ok && s.Sort == SStr {
			idx := r.term(st, x.Index)
			ln := mk(SInt, "(str.len %s)", s.S)
			r.emit(st, "index-in-range", "", []string{"C19"}, And(Le(IntLit(0), idx), Lt(idx, ln)), r.pos(x))
			st.assume(And(Le(IntLit(0), idx), Lt(idx, ln)))
			st.regs[x.Name()] = mk(SInt, "(str.to_code (str.at %s %s))", s.S, idx.S)
			return nil, false
		}
		panic(unsupported("Index on " + x.X.Type().String()))
	case *ssa.Lookup:
		r.lookup(st, x)
		return nil, false
	case *ssa.MakeMap:
		ref := st.newRef("map_" + x.Name())
		mi := r.v.mapInfo(x.Type().Underlying().(*types.Map))
		d := st.comp(mi.dom, mi.domSig)
		st.setComp(mi.dom, mi.domSig, fmt.Sprintf("(store %s %s ((as const %s) false))", d, ref.S, arraySort(string(mi.ksort), "Bool")))
		st.regs[x.Name()] = ref
		return nil, false
	case *ssa.MakeSlice:
		ln := r.term(st, x.Len)
		cp := r.term(st, x.Cap)
		r.emit(st, "makeslice-size", "", []string{"C19"}, And(Le(IntLit(0), ln), Le(ln, cp)), r.pos(x))
		st.assume(And(Le(IntLit(0), ln), Le(ln, cp)))
		ref := st.newRef("arr_" + x.Name())
		et := x.Type().Underlying().(*types.Slice).Elem()
		r.zeroArray(st, ref, et)
		st.regs[x.Name()] = MkSlice(ref, IntLit(0), ln, cp)
		return nil, false
	case *ssa.MakeClosure:
		fv := &FuncVal{Name: x.Fn.(*ssa.Function).String()}
		for _, bnd := range x.Bindings {
			fv.Bindings = append(fv.Bindings, r.val(st, bnd))
		}
		st.regs[x.Name()] = fv
		return nil, false
	case *ssa.MakeChan:
		st.regs[x.Name()] = st.newRef("chan")
		return nil, false
	case *ssa.MapUpdate:
		m := r.term(st, x.Map)
		r.emit(st, "nil-map-store", "", []string{"C19"}, Not(Ident(m, IntLit(0))), r.pos(x))
		st.assume(Not(Ident(m, IntLit(0))))
		mi := r.v.mapInfo(x.Map.Type().Underlying().(*types.Map))
		k := r.term(st, x.Key)
		st.seedKey(k)
		d := st.comp(mi.dom, mi.domSig)
		r.locksetComp(st, mi.dom, true, x)
		r.mapCardUpdate(st, mi, m, k, true, d)
		st.setComp(mi.dom, mi.domSig, fmt.Sprintf("(store %s %s (store (select %s %s) %s true))", d, m.S, d, m.S, k.S))
		r.v.writeMapVal(st, mi.val, mi.ksort, mi.vt, m, k, r.val(st, x.Value))
		return nil, false
	case *ssa.Slice:
		r.sliceOp(st, x)
		return nil, false
	case *ssa.Store:
		addr := r.val(st, x.Addr)
		elem := x.Addr.Type().Underlying().(*types.Pointer).Elem()
		if at, ok := addr.(Term); ok {
			r.emit(st, "nil-deref", "", []string{"C19"}, Not(Ident(at, IntLit(0))), r.pos(x))
			st.assume(Not(Ident(at, IntLit(0))))
		}
		loc := r.v.derefLoc(addr, elem)
		r.lockset(st, loc, true, x)
		r.v.writeLoc(st, loc, r.val(st, x.Val))
		return nil, false
	case *ssa.Range:
		r.rangeOp(st, x)
		return nil, false
	case *ssa.Next:
		r.nextOp(st, x)
		return nil, false
	case *ssa.Call:
		res := r.call(st, &x.Call, x, x.Type())
		if st.dead {
			return nil, true
		}
		st.regs[x.Name()] = res
		return nil, false
	case *ssa.Defer:
		r.deferCall(st, x)
		return nil, false
	case *ssa.RunDefers:
		for i := len(st.defers) - 1; i >= 0; i-- {
			d := st.defers[i]
			d.call(st)
			if st.dead {
				return nil, true
			}
		}
		st.defers = nil
		return nil, false
	case *ssa.Go:
		r.goStmt(st, x)
		return nil, false
	case *ssa.Send:
		r.blocking(st, "chan-send", x)
		return nil, false
	case *ssa.Panic:
		if r.c.MayPanic == "" {
			r.emit(st, "panic-unreachable", "", []string{"C19"}, BoolLit(false), r.pos(x))
		}
		return nil, true
	case *ssa.Jump:
		return []workItem{{st, b.Succs[0], b}}, true
	case *ssa.If:
		c := r.term(st, x.Cond)
		st2 := st.clone()
		st.assume(c)
		st2.assume(Not(c))
		// successor order reversed so that the 'then' branch is explored first (stack)
		return []workItem{{st2, b.Succs[1], b}, {st, b.Succs[0], b}}, true
	case *ssa.Return:
		r.ret(st, x)
		return nil, true
	case *ssa.Select:
		panic(unsupported("select"))
	}
	panic(unsupported(fmt.Sprintf("instruction %T", in)))
}

func (r *funcRun) zeroArray(st *State, ref Term, et types.Type) {
	// every leaf component of the element type gets a constant-zero array at ref
	var rec func(prefix string, t types.Type)
	rec = func(prefix string, t types.Type) {
		if s, ok := r.v.leafSort(t); ok {
			sig := compSort(s, 2)
			cur := st.comp(prefix, sig)
			st.setComp(prefix, sig, fmt.Sprintf("(store %s %s ((as const %s) %s))", cur, ref.S, arraySort("Int", string(s)), zeroOf(s).S))
			return
		}
		if classify(t) == kStruct {
			for _, f := range structFieldsOf(t) {
				rec(prefix+"."+f.Name, f.Type)
			}
			return
		}
		panic(unsupported("array of " + t.String()))
	}
	rec("Elem["+typeString(et)+"]", et)
}

func (r *funcRun) unop(st *State, x *ssa.UnOp) Value {
	switch x.Op {
	case token.MUL: // load
		addr := r.val(st, x.X)
		elem := x.X.Type().Underlying().(*types.Pointer).Elem()
		if at, ok := addr.(Term); ok {
			r.emit(st, "nil-deref", "", []string{"C19"}, Not(Ident(at, IntLit(0))), r.pos(x))
			st.assume(Not(Ident(at, IntLit(0))))
		}
		if g, ok := x.X.(*ssa.Global); ok {
			if v, ok := r.v.constGlobal(st, g); ok {
				return v
			}
		}
		loc := r.v.derefLoc(addr, elem)
		r.lockset(st, loc, false, x)
		v := r.v.readLoc(st, nil, loc)
		r.assumeInv(st, v, elem)
		return v
	case token.NOT:
		return Not(r.term(st, x.X))
	case token.SUB:
		t := r.term(st, x.X)
		if t.Sort == SF64 {
			return mk(SF64, "(fp.neg %s)", t.S)
		}
		res := mk(SInt, "(- %s)", t.S)
		r.emit(st, "overflow", "", nil, inRange(res, x.Type()), r.pos(x))
		return res
	case token.ARROW:
		r.blocking(st, "chan-recv", x)
		if x.CommaOk {
			return &TupleVal{E: []Value{r.v.freshValue(st, "recv", x.Type().(*types.Tuple).At(0).Type()), st.freshConst("recvok", SBool)}}
		}
		return r.v.freshValue(st, "recv", x.Type())
	}
	panic(unsupported("unop " + x.Op.String()))
}

// assumeInv assumes the type invariant of a value just read from memory.
func (r *funcRun) assumeInv(st *State, v Value, t types.Type) {
	switch x := v.(type) {
	case Term:
		st.assume(r.v.typeInv(st, x, t))
	case *StructVal:
		fs := structFieldsOf(t)
		for i, f := range fs {
			if i < len(x.F) {
				r.assumeInv(st, x.F[i], f.Type)
			}
		}
	}
}

func (r *funcRun) typeAssert(st *State, x *ssa.TypeAssert) {
	v := r.val(st, x.X)
	var payload Value
	var ok Term
	if isEmptyInterface(x.X.Type()) {
		payload, ok = r.fromVal(st, v.(Term), x.AssertedType)
	} else {
		t := v.(Term)
		if _, isI := x.AssertedType.Underlying().(*types.Interface); isI {
			if isEmptyInterface(x.AssertedType) {
				payload, ok = r.toVal(st, t, x.X.Type()), Not(Ident(t, IntLit(0)))
			} else {
				payload = t
				ok = And(Not(Ident(t, IntLit(0))), mk(SBool, "(implements %s (dyntype %s))", StrLit(typeString(x.AssertedType)).S, t.S))
			}
		} else if _, isP := x.AssertedType.Underlying().(*types.Pointer); isP {
			payload = t
			ok = And(Not(Ident(t, IntLit(0))), mk(SBool, "(= (dyntype %s) %s)", t.S, typeTag(x.AssertedType).S))
		} else {
			payload = r.v.freshValue(st, "assert", x.AssertedType)
			ok = And(Not(Ident(t, IntLit(0))), mk(SBool, "(= (dyntype %s) %s)", t.S, typeTag(x.AssertedType).S))
		}
	}
	if x.CommaOk {
		// on failure the payload is the zero value
		okc := st.freshConst("ok_"+x.Name(), SBool)
		st.assume(Ident(okc, ok))
		if pt, isT := payload.(Term); isT {
			payload = Ite(okc, pt, zeroOf(pt.Sort))
		}
		st.regs[x.Name()] = &TupleVal{E: []Value{payload, okc}}
		return
	}
	r.emit(st, "type-assert", "", []string{"C19"}, ok, r.pos(x))
	st.assume(ok)
	st.regs[x.Name()] = payload
}

func (r *funcRun) lookup(st *State, x *ssa.Lookup) {
	if mt, ok := x.X.Type().Underlying().(*types.Map); ok {
		m := r.term(st, x.X)
		k := r.term(st, x.Index)
		st.seedKey(k)
		mi := r.v.mapInfo(mt)
		r.locksetComp(st, mi.dom, false, x)
		has := r.v.mapHas(st, nil, mi, m, k)
		raw := r.v.mapValRead(st, nil, mi, m, k)
		val := r.iteValue(has, raw, r.v.zeroValue(mt.Elem()))
		if tv, isT := val.(Term); isT {
			c := st.freshConst("lk_"+x.Name(), tv.Sort)
			st.assume(Ident(c, tv))
			st.assume(Imp(has, r.v.typeInv(st, c, mt.Elem())))
			val = c
		}
		if x.CommaOk {
			okc := st.freshConst("has_"+x.Name(), SBool)
			st.assume(Ident(okc, has))
			st.regs[x.Name()] = &TupleVal{E: []Value{val, okc}}
		} else {
			st.regs[x.Name()] = val
		}
		return
	}
	// string index
	s := r.term(st, x.X)
	idx := r.term(st, x.Index)
	ln := mk(SInt, "(str.len %s)", s.S)
	r.emit(st, "index-in-range", "", []string{"C19"}, And(Le(IntLit(0), idx), Lt(idx, ln)), r.pos(x))
	st.assume(And(Le(IntLit(0), idx), Lt(idx, ln)))
	st.regs[x.Name()] = mk(SInt, "(str.to_code (str.at %s %s))", s.S, idx.S)
}

func (r *funcRun) iteValue(c Term, a, b Value) Value {
	switch x := a.(type) {
	case Term:
		return Ite(c, x, b.(Term))
	case *StructVal:
		y := b.(*StructVal)
		out := &StructVal{T: x.T, F: make([]Value, len(x.F))}
		for i := range x.F {
			out.F[i] = r.iteValue(c, x.F[i], y.F[i])
		}
		return out
	}
	panic(unsupported("ite of values"))
}

func (r *funcRun) sliceOp(st *State, x *ssa.Slice) {
	var lo, hi, mx *Term
	get := func(v ssa.Value) *Term {
		if v == nil {
			return nil
		}
		t := r.term(st, v)
		return &t
	}
	lo, hi, mx = get(x.Low), get(x.High), get(x.Max)
	zero := IntLit(0)
	if lo == nil {
		lo = &zero
	}
	switch u := x.X.Type().Underlying().(type) {
	case *types.Slice:
		s := r.term(st, x.X)
		h := SlLen(s)
		if hi != nil {
			h = *hi
		}
		m := SlCap(s)
		if mx != nil {
			m = *mx
		}
		g := And(Le(IntLit(0), *lo), Le(*lo, h), Le(h, m), Le(m, SlCap(s)))
		r.emit(st, "slice-bounds", "", []string{"C19"}, g, r.pos(x))
		st.assume(g)
		res := MkSlice(SlArr(s), Add(SlOff(s), *lo), Sub(h, *lo), Sub(m, *lo))
		c := st.freshConst("sl_"+x.Name(), SSlice)
		st.assume(Ident(c, res))
		// bridge: position i of the sub-slice is position lo+i of the sliced one
		st.cmds = append(st.cmds, fmt.Sprintf("(assert (forall ((i Int)) (! (= (at %s i) (at %s (+ %s i))) :pattern ((at %s i)))))", c.S, s.S, lo.S, c.S))
		st.regs[x.Name()] = c
	case *types.Pointer:
		at := u.Elem().Underlying().(*types.Array)
		base := r.term(st, x.X)
		n := IntLit(at.Len())
		h := n
		if hi != nil {
			h = *hi
		}
		g := And(Le(IntLit(0), *lo), Le(*lo, h), Le(h, n))
		r.emit(st, "slice-bounds", "", []string{"C19"}, g, r.pos(x))
		st.assume(g)
		st.regs[x.Name()] = MkSlice(base, *lo, Sub(h, *lo), Sub(n, *lo))
	case *types.Basic: // string
		s := r.term(st, x.X)
		ln := mk(SInt, "(str.len %s)", s.S)
		h := ln
		if hi != nil {
			h = *hi
		}
		g := And(Le(IntLit(0), *lo), Le(*lo, h), Le(h, ln))
		r.emit(st, "slice-bounds", "", []string{"C19"}, g, r.pos(x))
		st.assume(g)
		st.regs[x.Name()] = mk(SStr, "(str.substr %s %s %s)", s.S, lo.S, Sub(h, *lo).S)
	default:
		panic(unsupported("slice of " + x.X.Type().String()))
	}
}

const iterSig = "(Array Int (Array Int Bool))"

func (r *funcRun) iterComp(ks Sort) (string, string) {
	return "IterVisited[" + string(ks) + "]", arraySort("Int", arraySort(string(ks), "Bool"))
}

func (r *funcRun) rangeOp(st *State, x *ssa.Range) {
	if mt, ok := x.X.Type().Underlying().(*types.Map); ok {
		mi := r.v.mapInfo(mt)
		it := st.newRef("iter")
		name, sig := r.iterComp(mi.ksort)
		cur := st.comp(name, sig)
		st.setComp(name, sig, fmt.Sprintf("(store %s %s ((as const %s) false))", cur, it.S, arraySort(string(mi.ksort), "Bool")))
		st.regs[x.Name()] = it
		st.names["$iter"] = it
		st.ntypes["$iter"] = tInt
		// one "current iterator" per key sort, so that nested loops over maps with different key types can both be named
		st.names["$iter:"+string(mi.ksort)] = it
		st.ntypes["$iter:"+string(mi.ksort)] = tInt
		return
	}
	// string iteration: abstract iterator
	st.regs[x.Name()] = st.newRef("striter")
}

func (r *funcRun) nextOp(st *State, x *ssa.Next) {
	it := r.term(st, x.Iter)
	rg, _ := x.Iter.(*ssa.Range)
	if x.IsString || rg == nil {
		tp := x.Type().(*types.Tuple)
		ok := st.freshConst("next_ok", SBool)
		k := r.v.freshValue(st, "next_k", tp.At(1).Type())
		v := r.v.freshValue(st, "next_v", tp.At(2).Type())
		r.note("string range abstracted")
		st.regs[x.Name()] = &TupleVal{E: []Value{ok, k, v}}
		return
	}
	mt := rg.X.Type().Underlying().(*types.Map)
	mi := r.v.mapInfo(mt)
	m := r.term(st, rg.X)
	name, sig := r.iterComp(mi.ksort)
	vis := st.comp(name, sig)
	dom := st.comp(mi.dom, mi.domSig)
	ok := st.freshConst("next_ok", SBool)
	kk := st.freshConst("next_k", mi.ksort)
	st.assume(r.v.typeInv(st, kk, mt.Key()))
	st.seedKey(kk)
	isNil := Ident(m, IntLit(0))
	// ok => kk in dom, unvisited ; !ok => every key of dom visited
	st.assume(Imp(ok, And(Not(isNil), mk(SBool, "(select (select %s %s) %s)", dom, m.S, kk.S), Not(mk(SBool, "(select (select %s %s) %s)", vis, it.S, kk.S)))))
	st.assume(Imp(Not(ok), Or(isNil, mk(SBool, "(forall ((k %s)) (! (=> (select (select %s %s) k) (select (select %s %s) k)) :pattern ((select (select %s %s) k)) :pattern ((select (select %s %s) k))))", string(mi.ksort), dom, m.S, vis, it.S, vis, it.S, dom, m.S))))
	st.setComp(name, sig, fmt.Sprintf("(ite %s (store %s %s (store (select %s %s) %s true)) %s)", ok.S, vis, it.S, vis, it.S, kk.S, vis))
	val := r.v.mapValRead(st, nil, mi, m, kk)
	r.assumeInv(st, val, mt.Elem())
	st.names["$key"] = kk
	st.ntypes["$key"] = mt.Key()
	st.regs[x.Name()] = &TupleVal{E: []Value{ok, kk, val}}
}

// loopEntrySetup takes the snapshots, evaluates the lets and initialises the ghosts of a loop at its
// entry. arbitrary: the entry state is unknown (cut point): ghosts start unconstrained.
func (r *funcRun) loopEntrySetup(st *State, ls *LoopSpec, arbitrary bool) {
	for _, sn := range ls.Snaps {
		st.snaps[sn] = st.snap()
	}
	for _, l := range ls.Lets {
		c := &evalCtx{r: r, st: st, old: r.old, vars: r.baseVars(st), src: r.c.Src}
		tv := c.evalStr(l.Expr)
		st.names[l.Name] = tv.V
		st.ntypes[l.Name] = tv.T
	}
	for _, g := range ls.Ghosts {
		c := &evalCtx{r: r, st: st, old: r.old, vars: r.baseVars(st), src: g.Src}
		t := c.parseType(g.Type)
		if g.Init != "" && !arbitrary {
			tv := c.evalStr(g.Init)
			st.names[g.Name], st.ntypes[g.Name] = tv.V, t
		} else {
			st.names[g.Name], st.ntypes[g.Name] = r.v.freshValue(st, "lg_"+g.Name, t), t
		}
	}
}

// dominators of b, from the entry block down to (excluding) b.
func domChain(b *ssa.BasicBlock) []*ssa.BasicBlock {
	var ch []*ssa.BasicBlock
	for d := b.Idom(); d != nil; d = d.Idom() {
		ch = append([]*ssa.BasicBlock{d}, ch...)
	}
	return ch
}

// localNames: every source-level name the function's instructions bind.
func (r *funcRun) localNames() map[string]bool {
	ns := map[string]bool{}
	for _, blk := range r.fn.Blocks {
		for _, in := range blk.Instrs {
			switch x := in.(type) {
			case *ssa.DebugRef:
				if obj := x.Object(); obj != nil {
					ns[obj.Name()] = true
					ns["&"+obj.Name()] = true
				}
			case *ssa.Phi:
				if x.Comment != "" {
					ns[x.Comment] = true
				}
			case *ssa.Alloc:
				if x.Comment != "" {
					ns["&"+x.Comment] = true
				}
			}
		}
	}
	return ns
}

// rebindDominating rebinds the local names of st as the blocks dominating b bind them (the binding
// the cut state uses), with the values the registers have on this path.
func (r *funcRun) rebindDominating(st *State, b *ssa.BasicBlock) {
	for n := range r.localNames() {
		if _, isParam := r.params[n]; isParam {
			continue
		}
		delete(st.names, n)
	}
	for _, d := range domChain(b) {
		for _, in := range d.Instrs {
			switch x := in.(type) {
			case *ssa.DebugRef:
				r.step(st, x, d)
			case *ssa.Phi:
				if x.Comment != "" {
					if v, ok := st.regs[x.Name()]; ok {
						st.names[x.Comment] = v
						st.ntypes[x.Comment] = x.Type()
					}
				}
			case *ssa.Alloc:
				if x.Comment != "" && !strings.ContainsAny(x.Comment, " ()") {
					if v, ok := st.regs[x.Name()]; ok {
						st.names["&"+x.Comment] = v
						st.ntypes["&"+x.Comment] = x.Type()
					}
				}
			}
		}
	}
}

// cutState builds the state a cut-point loop is explored from: the preconditions, an unknown heap, and
// unknown values for every register defined in a block dominating the header.
func (r *funcRun) cutState(arriving *State, b *ssa.BasicBlock) *State {
	cs := r.entrySt.clone()
	cs.defers = append([]deferred(nil), arriving.defers...)
	cs.trace = append([]int(nil), arriving.trace...)
	cs.depth = arriving.depth
	for k, v := range arriving.loops {
		cs.loops[k] = v
	}
	r.cutHavoc(cs, r.old.alloc)
	var cells []Term
	for _, d := range domChain(b) {
		for _, in := range d.Instrs {
			if dr, ok := in.(*ssa.DebugRef); ok {
				r.step(cs, dr, d)
				continue
			}
			val, ok := in.(ssa.Value)
			if !ok {
				continue
			}
			v := r.v.freshValue(cs, "cut_"+val.Name(), val.Type())
			cs.regs[val.Name()] = v
			switch x := in.(type) {
			case *ssa.Phi:
				if x.Comment != "" {
					cs.names[x.Comment] = v
					cs.ntypes[x.Comment] = x.Type()
				}
			case *ssa.Alloc:
				// a local cell: live, distinct from the other local cells
				t := v.(Term)
				cs.assume(And(Lt(IntLit(0), t), Le(t, cs.alloc)))
				for _, q := range cells {
					cs.assume(Not(Eq(t, q)))
				}
				cells = append(cells, t)
				if x.Comment != "" && !strings.ContainsAny(x.Comment, " ()") {
					cs.names["&"+x.Comment] = v
					cs.ntypes["&"+x.Comment] = x.Type()
				}
			}
		}
	}
	return cs
}

// cutHavoc forgets what the function may have changed: components it writes get a new version;
// those written only through its own local cells or only at references its callees allocate keep
// their values at old references (local cells: references of the function's entry; callee
// allocations: references up to freshBound).
func (r *funcRun) cutHavoc(st *State, freshBound Term) {
	full, local, freshOnly := r.blockSetWrites(r.fn.Blocks)
	if full[everything] {
		st.havocEverything()
		r.havocGhostVars(st)
		return
	}
	st.bumpAlloc()
	keys := func(m map[string]bool) []string {
		out := make([]string, 0, len(m))
		for c := range m {
			out = append(out, c)
		}
		sort.Strings(out)
		return out
	}
	for _, c := range keys(full) {
		st.havocComp(c)
	}
	for _, c := range keys(local) {
		r.havocFresh(st, c, r.old.alloc)
	}
	for _, c := range keys(freshOnly) {
		if !local[c] {
			r.havocFresh(st, c, freshBound)
		}
	}
}

func (r *funcRun) havocGhostVars(st *State) {
	var gs []string
	for g := range r.v.spec.GhostVars {
		gs = append(gs, g)
	}
	sort.Strings(gs)
	st.havocGhosts(gs)
}
