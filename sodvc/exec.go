package main

import (
	"fmt"
	"go/constant"
	"go/token"
	"go/types"
	"hash/fnv"
	"math"
	"math/big"
	"strings"

	"golang.org/x/tools/go/ssa"
)

type unsupportedErr struct{ msg string }

func unsupported(msg string) unsupportedErr { return unsupportedErr{msg} }

// Obligation is one verification condition.
type Obligation struct {
	Name   string
	Fn     string
	Kind   string
	Props  []string
	Cmds   []string
	Goal   Term
	Theory string
	Trace  []int
	Src    string
	Inputs []string // symbols whose model values are of interest
	// filled by the solver stage
	Result   string
	Solver   string
	Ms       int64
	Output   string
	FirstTry string // solver output of the first attempt when the obligation was retried
	RetSite  int    // cover:return: ordinal of the return statement (source order)
	IsCover  bool   // cover query: expected sat
	Wide     bool   // selected by the wide mode (tagged for another property of the same function)
}

// funcRun is the per-function context of a verification run.
type funcRun struct {
	v            *Verifier
	fn           *ssa.Function
	c            *Contract
	obls         []*Obligation
	counts       map[string]int
	fresh        int
	old          *HeapSnap
	params       map[string]Value
	ptypes       map[string]types.Type
	loopOrd      map[int]int // header block index -> ordinal
	paths        int
	entryMeasure []Term
	notes        []string
	inputs       []string
	lets         map[string]Value
	lettypes     map[string]types.Type
	retOrd       map[token.Pos]int // return statement -> ordinal in source order
	entrySt      *State       // state right after the preconditions (used by cut-point loops)
	cutDone      map[int]bool // cut-point loop headers already explored
}

func typeTag(t types.Type) Term {
	h := fnv.New32a()
	h.Write([]byte(types.TypeString(t, nil)))
	return IntLit(int64(h.Sum32()%1000000000) + 16)
}

func (r *funcRun) oblName(kind, detail string) string {
	key := kind
	if detail != "" {
		key = kind + ":" + detail
	}
	r.counts[key]++
	return fmt.Sprintf("%s/%s#%d", r.c.Target, key, r.counts[key])
}

// emit an obligation: goal must hold under the commands of st.
func (r *funcRun) emit(st *State, kind, detail string, props []string, goal Term, src string) {
	if goal.S == "true" {
		return
	}
	for _, sk := range r.c.Skips {
		if sk == kind {
			return
		}
	}
	name := ""
	if strings.HasPrefix(detail, "=") { // stable explicit name
		name = fmt.Sprintf("%s/%s:%s", r.c.Target, kind, detail[1:])
		r.counts[name]++
		if r.counts[name] > 1 {
			name = fmt.Sprintf("%s~%d", name, r.counts[name])
		}
	} else {
		name = r.oblName(kind, detail)
	}
	if len(props) == 0 {
		props = r.c.Serves
	}
	o := &Obligation{Name: name, Fn: r.c.Target, Kind: kind, Props: props, Cmds: append([]string(nil), st.cmds...), Goal: goal,
		Theory: r.c.Theory, Trace: append([]int(nil), st.trace...), Src: src, Inputs: r.inputs}
	r.obls = append(r.obls, o)
}

func (r *funcRun) pos(i ssa.Instruction) string {
	p := r.v.prog.Fset.Position(i.Pos())
	if !p.IsValid() {
		return ""
	}
	return fmt.Sprintf("%s:%d", shortFile(p.Filename), p.Line)
}

func shortFile(f string) string {
	if k := strings.LastIndex(f, "/"); k >= 0 {
		return f[k+1:]
	}
	return f
}

// ---- values ----

func (r *funcRun) constVal(c *ssa.Const) Value {
	t := c.Type()
	if c.Value == nil {
		// nil or zero value
		if classify(t) == kStruct {
			return r.v.zeroValue(t)
		}
		s, ok := r.v.leafSort(t)
		if !ok {
			panic(unsupported("nil const of type " + t.String()))
		}
		return zeroOf(s)
	}
	switch c.Value.Kind() {
	case constant.Bool:
		return BoolLit(constant.BoolVal(c.Value))
	case constant.String:
		return StrLit(constant.StringVal(c.Value))
	case constant.Int:
		if s, _ := sortOf(t); s == SF64 {
			f, _ := constant.Float64Val(c.Value)
			return f64Lit(f)
		}
		bi, ok := new(big.Int).SetString(c.Value.ExactString(), 10)
		if !ok {
			panic(unsupported("int const"))
		}
		return BigLit(bi)
	case constant.Float:
		f, _ := constant.Float64Val(c.Value)
		if s, _ := sortOf(t); s == SInt {
			return IntLit(int64(f))
		}
		return f64Lit(f)
	}
	panic(unsupported("const kind"))
}

func f64Lit(f float64) Term {
	b := math.Float64bits(f)
	return Term{S: fmt.Sprintf("(fp #b%01b #b%011b #b%052b)", b>>63, (b>>52)&0x7ff, b&((1<<52)-1)), Sort: SF64}
}

func (r *funcRun) val(st *State, x ssa.Value) Value {
	switch x := x.(type) {
	case *ssa.Const:
		return r.constVal(x)
	case *ssa.Global:
		return r.globalLoc(x)
	case *ssa.Function:
		return &FuncVal{Name: x.String()}
	case *ssa.Builtin:
		return &FuncVal{Name: "builtin:" + x.Name()}
	}
	if v, ok := st.regs[x.Name()]; ok {
		return v
	}
	panic(unsupported("value " + x.Name() + " undefined (" + x.String() + ")"))
}

func (r *funcRun) term(st *State, x ssa.Value) Term {
	v := r.val(st, x)
	t, ok := v.(Term)
	if !ok {
		if l, isLoc := v.(*Loc); isLoc {
			// an interior pointer used as a plain value: only identity matters
			_ = l
			panic(unsupported("interior pointer used as value: " + x.Name()))
		}
		panic(unsupported(fmt.Sprintf("value %s is %T, not a term", x.Name(), v)))
	}
	return t
}

func (r *funcRun) globalLoc(g *ssa.Global) *Loc {
	name := g.Name()
	if g.Pkg != nil && g.Pkg.Pkg.Path() != "github.com/0xrawsec/sod" {
		name = g.Pkg.Pkg.Name() + "." + name
	}
	elem := g.Type().(*types.Pointer).Elem()
	return &Loc{Prefix: "Glob." + name, Idx: nil, Type: elem}
}

// ---- conversions to and from interface values ----

func (r *funcRun) toVal(st *State, x Value, t types.Type) Term {
	if xt, ok := x.(Term); ok {
		switch xt.Sort {
		case SVal:
			return xt
		case SBool:
			if b, ok := t.Underlying().(*types.Basic); ok && b.Kind() == types.Bool {
				return mk(SVal, "(VBool %s)", xt.S)
			}
		case SStr:
			if types.Identical(t, types.Typ[types.String]) {
				return mk(SVal, "(VStr %s)", xt.S)
			}
			return mk(SVal, "(VOther %s (strpay %s))", typeTag(t).S, xt.S)
		case SF64:
			if types.Identical(t, types.Typ[types.Float64]) {
				return mk(SVal, "(VFloat %s)", xt.S)
			}
			return mk(SVal, "(VOther %s (f64pay %s))", typeTag(t).S, xt.S)
		case SInt:
			if types.Identical(t, types.Typ[types.Int64]) {
				return mk(SVal, "(VInt %s)", xt.S)
			}
			if types.Identical(t, types.Typ[types.Uint64]) {
				return mk(SVal, "(VUint %s)", xt.S)
			}
			if _, isI := t.Underlying().(*types.Interface); isI {
				return mk(SVal, "(ite (= %s 0) VNil (VOther (dyntype %s) %s))", xt.S, xt.S, xt.S)
			}
			return mk(SVal, "(VOther %s %s)", typeTag(t).S, xt.S)
		case SSlice:
			return mk(SVal, "(VOther %s (slpay %s))", typeTag(t).S, xt.S)
		}
	}
	// struct values etc: opaque payload
	p := st.freshConst("pay", SInt)
	return mk(SVal, "(VOther %s %s)", typeTag(t).S, p.S)
}

// fromVal: (payload, ok) of asserting Val x to type t.
func (r *funcRun) fromVal(st *State, x Term, t types.Type) (Value, Term) {
	if isEmptyInterface(t) {
		return x, BoolLit(true)
	}
	if _, isI := t.Underlying().(*types.Interface); isI {
		ok := mk(SBool, "(and ((_ is VOther) %s) (implements %s %s))", x.S, StrLit(typeString(t)).S, mk(SInt, "(vtag %s)", x.S).S)
		return mk(SInt, "(vpay %s)", x.S), ok
	}
	s, isLeaf := r.v.leafSort(t)
	if !isLeaf {
		// struct value: unconstrained
		ok := mk(SBool, "(and ((_ is VOther) %s) (= (vtag %s) %s))", x.S, x.S, typeTag(t).S)
		return r.v.freshValue(st, "assert", t), ok
	}
	switch s {
	case SBool:
		return mk(SBool, "(vbool %s)", x.S), mk(SBool, "((_ is VBool) %s)", x.S)
	case SStr:
		if types.Identical(t, types.Typ[types.String]) {
			return mk(SStr, "(vstr %s)", x.S), mk(SBool, "((_ is VStr) %s)", x.S)
		}
		// a named string type (json.Number ...): tagged value whose payload stands for the string
		{
			sv := st.freshConst("nstr", SStr)
			ok := mk(SBool, "(and ((_ is VOther) %s) (= (vtag %s) %s))", x.S, x.S, typeTag(t).S)
			st.assume(Imp(ok, mk(SBool, "(= (strpay %s) (vpay %s))", sv.S, x.S)))
			return sv, ok
		}
	case SF64:
		if types.Identical(t, types.Typ[types.Float64]) {
			return mk(SF64, "(vfloat %s)", x.S), mk(SBool, "((_ is VFloat) %s)", x.S)
		}
		f := st.freshConst("f32", SF64)
		ok := mk(SBool, "(and ((_ is VOther) %s) (= (vtag %s) %s))", x.S, x.S, typeTag(t).S)
		st.assume(Imp(ok, mk(SBool, "(= (f64pay %s) (vpay %s))", f.S, x.S)))
		return f, ok
	case SInt:
		if types.Identical(t, types.Typ[types.Int64]) {
			return mk(SInt, "(vint %s)", x.S), mk(SBool, "((_ is VInt) %s)", x.S)
		}
		if types.Identical(t, types.Typ[types.Uint64]) {
			return mk(SInt, "(vuint %s)", x.S), mk(SBool, "((_ is VUint) %s)", x.S)
		}
		ok := mk(SBool, "(and ((_ is VOther) %s) (= (vtag %s) %s))", x.S, x.S, typeTag(t).S)
		p := mk(SInt, "(vpay %s)", x.S)
		// the payload of a well-formed value of integer type is in range
		if _, _, isInt := intRange(t); isInt {
			st.assume(Imp(ok, inRange(p, t)))
		}
		return p, ok
	case SSlice:
		sl := st.freshConst("sl", SSlice)
		ok := mk(SBool, "(and ((_ is VOther) %s) (= (vtag %s) %s))", x.S, x.S, typeTag(t).S)
		st.assume(Imp(ok, mk(SBool, "(= (slpay %s) (vpay %s))", sl.S, x.S)))
		st.assume(r.v.typeInv(st, sl, t))
		return sl, ok
	}
	panic(unsupported("type assert to " + t.String()))
}

// ---- arithmetic ----

func (r *funcRun) binop(st *State, in *ssa.BinOp) Value {
	xt := in.X.Type()
	x := r.val(st, in.X)
	y := r.val(st, in.Y)
	a, aok := x.(Term)
	b, bok := y.(Term)
	if !aok || !bok {
		// pointer comparison with interior pointers etc.
		if in.Op == token.EQL || in.Op == token.NEQ {
			return st.freshConst("cmp", SBool)
		}
		panic(unsupported("binop on non-terms"))
	}
	switch in.Op {
	case token.EQL:
		return r.equal(a, b)
	case token.NEQ:
		return Not(r.equal(a, b))
	}
	switch a.Sort {
	case SInt:
		switch in.Op {
		case token.ADD, token.SUB, token.MUL:
			op := map[token.Token]string{token.ADD: "+", token.SUB: "-", token.MUL: "*"}[in.Op]
			res := mk(SInt, "(%s %s %s)", op, a.S, b.S)
			r.emit(st, "overflow", "", nil, inRange(res, in.Type()), r.pos(in))
			st.assume(inRange(res, in.Type()))
			return res
		case token.QUO, token.REM:
			r.emit(st, "div-by-zero", "", []string{"C19"}, Not(Ident(b, IntLit(0))), r.pos(in))
			st.assume(Not(Ident(b, IntLit(0))))
			// Go truncates toward zero
			q := mk(SInt, "(ite (>= %s 0) (div %s %s) (- (div (- %s) %s)))", a.S, a.S, b.S, a.S, b.S)
			if in.Op == token.QUO {
				return q
			}
			return mk(SInt, "(- %s (* %s %s))", a.S, b.S, q.S)
		case token.LSS:
			return Lt(a, b)
		case token.LEQ:
			return Le(a, b)
		case token.GTR:
			return Lt(b, a)
		case token.GEQ:
			return Le(b, a)
		default:
			// bit operations: result unconstrained within the type
			c := st.freshConst("bitop", SInt)
			st.assume(inRange(c, in.Type()))
			r.note("bit operation " + in.Op.String() + " abstracted at " + r.pos(in))
			return c
		}
	case SF64:
		switch in.Op {
		case token.LSS:
			return mk(SBool, "(fp.lt %s %s)", a.S, b.S)
		case token.LEQ:
			return mk(SBool, "(fp.leq %s %s)", a.S, b.S)
		case token.GTR:
			return mk(SBool, "(fp.gt %s %s)", a.S, b.S)
		case token.GEQ:
			return mk(SBool, "(fp.geq %s %s)", a.S, b.S)
		case token.ADD:
			return mk(SF64, "(fp.add RNE %s %s)", a.S, b.S)
		case token.SUB:
			return mk(SF64, "(fp.sub RNE %s %s)", a.S, b.S)
		case token.MUL:
			return mk(SF64, "(fp.mul RNE %s %s)", a.S, b.S)
		case token.QUO:
			return mk(SF64, "(fp.div RNE %s %s)", a.S, b.S)
		}
	case SStr:
		switch in.Op {
		case token.ADD:
			return mk(SStr, "(str.++ %s %s)", a.S, b.S)
		case token.LSS:
			return mk(SBool, "(str.< %s %s)", a.S, b.S)
		case token.LEQ:
			return mk(SBool, "(str.<= %s %s)", a.S, b.S)
		case token.GTR:
			return mk(SBool, "(str.< %s %s)", b.S, a.S)
		case token.GEQ:
			return mk(SBool, "(str.<= %s %s)", b.S, a.S)
		}
	case SBool:
		switch in.Op {
		case token.AND, token.LAND:
			return And(a, b)
		case token.OR, token.LOR:
			return Or(a, b)
		}
	}
	_ = xt
	panic(unsupported("binop " + in.Op.String() + " on " + string(a.Sort)))
}

func (r *funcRun) equal(a, b Term) Term {
	if a.Sort == SSlice || b.Sort == SSlice {
		// only comparison with nil is legal in Go
		if a.S == NilSlice.S {
			return Ident(SlArr(b), IntLit(0))
		}
		return Ident(SlArr(a), IntLit(0))
	}
	return Eq(a, b)
}

func (r *funcRun) note(s string) {
	for _, n := range r.notes {
		if n == s {
			return
		}
	}
	r.notes = append(r.notes, s)
}

func (r *funcRun) convert(st *State, in *ssa.Convert) Value {
	from, to := in.X.Type(), in.Type()
	x := r.val(st, in.X)
	xt, ok := x.(Term)
	if !ok {
		panic(unsupported("convert of non-term"))
	}
	fs, _ := sortOf(from)
	ts, tok := sortOf(to)
	if !tok {
		panic(unsupported("convert to " + to.String()))
	}
	switch {
	case fs == SInt && ts == SInt:
		lo, hi, isInt := intRange(to)
		flo, fhi, fInt := intRange(from)
		if !isInt || !fInt {
			return xt // pointer <-> unsafe etc.
		}
		if flo.Cmp(lo) >= 0 && fhi.Cmp(hi) <= 0 {
			return xt
		}
		// wrap-around
		size := new(big.Int).Add(new(big.Int).Sub(hi, lo), big.NewInt(1))
		if lo.Sign() == 0 {
			return mk(SInt, "(mod %s %s)", xt.S, size.String())
		}
		return mk(SInt, "(- (mod (+ %s %s) %s) %s)", xt.S, new(big.Int).Neg(lo).String(), size.String(), new(big.Int).Neg(lo).String())
	case fs == SF64 && ts == SF64:
		return xt
	case fs == SInt && ts == SF64:
		return mk(SF64, "(i2f %s)", xt.S)
	case fs == SF64 && ts == SInt:
		if b, ok := to.Underlying().(*types.Basic); ok && (b.Kind() == types.Uint64 || b.Kind() == types.Uint) {
			return mk(SInt, "(f2u %s)", xt.S)
		}
		res := mk(SInt, "(f2i %s)", xt.S)
		if b, ok := to.Underlying().(*types.Basic); ok && (b.Kind() == types.Int64 || b.Kind() == types.Int) {
			return res
		}
		c := st.freshConst("f2i", SInt)
		st.assume(inRange(c, to))
		return c
	case fs == SStr && ts == SSlice:
		// []byte(s): fresh array
		c := st.freshConst("bytes", SSlice)
		st.assume(r.v.typeInv(st, c, to))
		st.assume(Ident(SlLen(c), mk(SInt, "(str.len %s)", xt.S)))
		return c
	case fs == SSlice && ts == SStr:
		c := st.freshConst("str", SStr)
		st.assume(Ident(mk(SInt, "(str.len %s)", c.S), SlLen(xt)))
		return c
	case fs == SInt && ts == SStr:
		return mk(SStr, "(str.from_code %s)", xt.S)
	}
	panic(unsupported(fmt.Sprintf("convert %s -> %s", from, to)))
}
