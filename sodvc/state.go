package main

import (
	"fmt"
	"go/types"
	"strings"
)

// Value is what an SSA register holds during symbolic execution:
// Term | *Loc | *StructVal | *TupleVal | *FuncVal
type Value interface{}

// Loc is a symbolic address: a heap component prefix plus index terms.
type Loc struct {
	Prefix string     // component name (for struct-typed locations: prefix of the leaf components)
	Idx    []Term     // 0 (global/ghost var), 1 (object field / cell) or 2 (array element) indices
	Type   types.Type // pointee type
	Guard  string     // informational
}

type StructVal struct {
	T types.Type
	F []Value
}

type TupleVal struct {
	E []Value
}

type FuncVal struct {
	Name     string
	Bindings []Value
}

// compSort returns the SMT sort string of a component of element sort s and arity n.
func compSort(s Sort, arity int) string {
	r := string(s)
	for i := 0; i < arity; i++ {
		r = arraySort("Int", r)
	}
	return r
}

// State is the symbolic state on one path.
type State struct {
	cmds     []string          // SMT commands (declarations and assertions) so far
	declared map[string]bool   // declared symbols
	heap     map[string]string // component -> current symbol
	compSig  map[string]string // component -> sort string (for lazy declaration)
	epoch    int
	lazyTag  map[string]string // component -> tag of its not-yet-declared current version (after a havoc)
	alloc    Term
	regs     map[string]Value // SSA register name -> value
	names    map[string]Value // source-level names (DebugRef, phi comments, params)
	snaps    map[string]*HeapSnap // named heap snapshots (loop N snap S)
	ntypes   map[string]types.Type
	defers   []deferred
	trace    []int
	loops    map[int]bool // active loop headers (block index)
	fresh    *int
	sigOf    func(string) (string, bool)
	rangeOf  func(string) (string, string, bool)
	depth    int
	dead     bool
}

type deferred struct {
	call func(st *State)
}

func (st *State) clone() *State {
	n := &State{
		cmds:     append([]string(nil), st.cmds...),
		declared: make(map[string]bool, len(st.declared)),
		heap:     make(map[string]string, len(st.heap)),
		compSig:  st.compSig, // shared: only grows, deterministic
		epoch:    st.epoch,
		lazyTag:  make(map[string]string, len(st.lazyTag)),
		alloc:    st.alloc,
		regs:     make(map[string]Value, len(st.regs)),
		names:    make(map[string]Value, len(st.names)),
		snaps:    make(map[string]*HeapSnap, len(st.snaps)),
		ntypes:   st.ntypes,
		defers:   append([]deferred(nil), st.defers...),
		trace:    append([]int(nil), st.trace...),
		loops:    make(map[int]bool, len(st.loops)),
		fresh:    st.fresh,
		sigOf:    st.sigOf,
		rangeOf:  st.rangeOf,
		depth:    st.depth,
	}
	for k, v := range st.declared {
		n.declared[k] = v
	}
	for k, v := range st.heap {
		n.heap[k] = v
	}
	for k, v := range st.lazyTag {
		n.lazyTag[k] = v
	}
	for k, v := range st.regs {
		n.regs[k] = v
	}
	for k, v := range st.names {
		n.names[k] = v
	}
	for k, v := range st.snaps {
		n.snaps[k] = v
	}
	for k, v := range st.loops {
		n.loops[k] = v
	}
	return n
}

func (st *State) freshName(base string) string {
	*st.fresh++
	return fmt.Sprintf("%s!%d", base, *st.fresh)
}

func (st *State) declare(name, sort string) {
	if st.declared[name] {
		return
	}
	st.declared[name] = true
	st.cmds = append(st.cmds, fmt.Sprintf("(declare-const %s %s)", sym(name), sort))
}

func (st *State) assume(t Term) {
	if t.S == "true" {
		return
	}
	key := "as:" + t.S
	if st.declared[key] {
		return
	}
	st.declared[key] = true
	st.cmds = append(st.cmds, "(assert "+t.S+")")
}

func (st *State) comment(s string) {
	st.cmds = append(st.cmds, "; "+strings.ReplaceAll(s, "\n", " "))
}

// freshConst declares a fresh constant of the sort.
func (st *State) freshConst(base string, s Sort) Term {
	n := st.freshName(base)
	st.declare(n, string(s))
	return Term{S: sym(n), Sort: s}
}

// comp returns the current symbol of a heap component, declaring the
// epoch-initial version lazily.
func (st *State) comp(name string, sortStr string) string {
	if s, ok := st.heap[name]; ok {
		return s
	}
	if _, ok := st.compSig[name]; !ok {
		st.compSig[name] = sortStr
	}
	ep := st.epoch
	if strings.HasPrefix(name, "Ghost.") {
		ep = 0 // ghost variables survive a havoc of the heap
	}
	n := fmt.Sprintf("%s@e%d", name, ep)
	if tag, ok := st.lazyTag[name]; ok {
		n = name + "@" + tag
	}
	if !st.declared[n] {
		st.declare(n, sortStr)
		a := st.alloc
		if st.epoch == 0 && st.lazyTag[name] == "" {
			a = Term{S: "alloc0", Sort: SInt} // entry-state version
		}
		st.compAxiom(name, sym(n), sortStr, a)
	}
	st.heap[name] = sym(n)
	return sym(n)
}

// setComp installs a new version of the component equal to the term.
func (st *State) setComp(name, sortStr string, val string) {
	if _, ok := st.compSig[name]; !ok {
		st.compSig[name] = sortStr
	}
	n := st.freshName(name)
	st.declare(n, sortStr)
	st.cmds = append(st.cmds, fmt.Sprintf("(assert (= %s %s))", sym(n), val))
	st.heap[name] = sym(n)
}

// havocComp installs an unconstrained new version.
func (st *State) havocComp(name string) {
	sortStr, ok := st.compSig[name]
	if !ok && st.sigOf != nil {
		if sg, found := st.sigOf(name); found {
			st.compSig[name] = sg
			sortStr, ok = sg, true
		}
	}
	if !ok {
		// sort not known yet: remember that the lazily declared version
		// must differ from the epoch-initial one
		*st.fresh++
		st.lazyTag[name] = fmt.Sprintf("h%d", *st.fresh)
		delete(st.heap, name)
		return
	}
	n := st.freshName(name)
	st.declare(n, sortStr)
	st.compAxiom(name, sym(n), sortStr, st.alloc)
	st.heap[name] = sym(n)
}

// havocAll forgets everything about the heap.
func (st *State) havocAll() {
	*st.fresh++
	st.epoch = *st.fresh
	// ghost variables (lock typestate ...) are not memory: a callee changes them only if
	// its contract says so
	keep := map[string]string{}
	for k, v := range st.heap {
		if strings.HasPrefix(k, "Ghost.") {
			keep[k] = v
		}
	}
	st.heap = keep
	st.lazyTag = map[string]string{}
	st.bumpAlloc()
}

// havocEverything forgets the whole heap, ghost variables included (cut-point loops).
func (st *State) havocEverything() {
	*st.fresh++
	st.epoch = *st.fresh
	st.heap = map[string]string{}
	st.lazyTag = map[string]string{}
	st.bumpAlloc()
}

func (st *State) bumpAlloc() {
	a := st.freshConst("alloc", SInt)
	st.assume(Le(st.alloc, a))
	st.alloc = a
}

// newRef allocates a fresh reference.
func (st *State) newRef(base string) Term {
	r := st.freshConst(base, SInt)
	st.assume(Lt(st.alloc, r))
	a := st.freshConst("alloc", SInt)
	st.assume(Ident(a, r))
	st.alloc = a
	return r
}

// HeapSnap is an immutable view of the heap at some point.
type HeapSnap struct {
	heap    map[string]string
	lazyTag map[string]string
	epoch   int
	alloc   Term
}

func (st *State) snap() *HeapSnap {
	h := make(map[string]string, len(st.heap))
	for k, v := range st.heap {
		h[k] = v
	}
	lz := make(map[string]string, len(st.lazyTag))
	for k, v := range st.lazyTag {
		lz[k] = v
	}
	return &HeapSnap{heap: h, lazyTag: lz, epoch: st.epoch, alloc: st.alloc}
}

// compAt reads a component symbol in a snapshot (declaring lazily in st).
func (st *State) compAt(h *HeapSnap, name, sortStr string) string {
	if h == nil {
		return st.comp(name, sortStr)
	}
	if s, ok := h.heap[name]; ok {
		return s
	}
	if _, ok := st.compSig[name]; !ok {
		st.compSig[name] = sortStr
	}
	n := fmt.Sprintf("%s@e%d", name, h.epoch)
	if tag, ok := h.lazyTag[name]; ok {
		n = name + "@" + tag
	}
	if !st.declared[n] {
		st.declare(n, sortStr)
		st.compAxiom(name, sym(n), sortStr, h.alloc)
	}
	// if the current state is in the same epoch and has not touched the
	// component, both views coincide
	if st.epoch == h.epoch {
		if _, ok := st.heap[name]; !ok {
			if st.lazyTag[name] == h.lazyTag[name] {
				st.heap[name] = sym(n)
			}
		}
	}
	return sym(n)
}

// seed makes the term available as an instantiation trigger for index quantifiers.
func (st *State) seed(t Term) {
	if t.Sort != SInt {
		return
	}
	key := "trg:" + t.S
	if st.declared[key] {
		return
	}
	st.declared[key] = true
	st.cmds = append(st.cmds, "(assert (trg "+t.S+"))")
}

// seedKey makes the term an instantiation trigger for quantifiers over map keys.
func (st *State) seedKey(t Term) {
	fn := ""
	switch t.Sort {
	case SInt:
		fn = "trgk"
	case SStr:
		fn = "trgs"
	default:
		return
	}
	key := fn + ":" + t.S
	if st.declared[key] {
		return
	}
	st.declared[key] = true
	st.cmds = append(st.cmds, "(assert ("+fn+" "+t.S+"))")
}

// compAxiom asserts the type invariant of a freshly declared version of an
// integer-valued heap component: every value it holds is in the range of its Go type.
func (st *State) compAxiom(name, symbol, sortStr string, alloc Term) {
	if st.rangeOf == nil {
		return
	}
	lo, hi, ok := st.rangeOf(name)
	if !ok {
		return
	}
	// value invariant as a function of the selected value term
	inv := func(val string) string {
		switch lo {
		case "ref":
			return fmt.Sprintf("(and (<= 0 %s) (<= %s %s))", val, val, alloc.S)
		case "slice":
			return fmt.Sprintf("(and (<= 0 (sl_len %s)) (<= (sl_len %s) (sl_cap %s)) (<= (sl_cap %s) 72057594037927936) (<= 0 (sl_off %s)) (<= (+ (sl_off %s) (sl_cap %s)) 72057594037927936) (<= 0 (sl_arr %s)) (<= (sl_arr %s) %s) (=> (= (sl_arr %s) 0) (= (sl_cap %s) 0)))",
				val, val, val, val, val, val, val, val, val, alloc.S, val, val)
		}
		return fmt.Sprintf("(and (<= %s %s) (<= %s %s))", lo, val, val, hi)
	}
	switch {
	case strings.HasPrefix(sortStr, "(Array Int (Array "):
		inner := strings.TrimPrefix(sortStr, "(Array Int (Array ")
		ks := inner[:strings.Index(inner, " ")]
		sel := fmt.Sprintf("(select (select %s r) k)", symbol)
		st.cmds = append(st.cmds, fmt.Sprintf("(assert (forall ((r Int) (k %s)) (! %s :pattern (%s))))", ks, inv(sel), sel))
	case strings.HasPrefix(sortStr, "(Array Int "):
		sel := fmt.Sprintf("(select %s r)", symbol)
		st.cmds = append(st.cmds, fmt.Sprintf("(assert (forall ((r Int)) (! %s :pattern (%s))))", inv(sel), sel))
	}
}

// havocGhosts forgets the ghost variables (call of a sod function without contract).
func (st *State) havocGhosts(names []string) {
	for _, n := range names {
		if _, ok := st.compSig["Ghost."+n]; !ok {
			sg := "Int"
			if st.sigOf != nil {
				if s2, found := st.sigOf("Ghost." + n); found {
					sg = s2
				}
			}
			st.compSig["Ghost."+n] = sg
		}
		st.havocComp("Ghost." + n)
	}
}
