package main

// replayModel turns a solver model into a run of the real code. (Filled in per
// replay family; without a family the model is recorded only.)
func (v *Verifier) replayModel(o *Obligation, r *Replay, repo string) {
	r.Note = "model recorded; no replay family for this obligation"
}
