package main

import (
	"go/token"
	"fmt"
	"go/ast"
	"go/constant"
	"go/parser"
	"go/types"
	"sort"
	"strings"

	"golang.org/x/tools/go/ssa"
)

type leafComp struct {
	Name string
	Sort Sort
}

func (v *Verifier) leafCompsS(prefix string, t types.Type) []leafComp {
	if s, ok := v.leafSort(t); ok {
		return []leafComp{{prefix, s}}
	}
	if classify(t) == kStruct {
		var out []leafComp
		for _, f := range structFieldsOf(t) {
			out = append(out, v.leafCompsS(prefix+"."+f.Name, f.Type)...)
		}
		return out
	}
	panic(unsupported("leaf components of " + t.String()))
}

func (r *funcRun) entryState() *State {
	st := &State{declared: map[string]bool{}, heap: map[string]string{}, compSig: map[string]string{}, lazyTag: map[string]string{},
		regs: map[string]Value{}, names: map[string]Value{}, snaps: map[string]*HeapSnap{}, ntypes: map[string]types.Type{}, loops: map[int]bool{}, fresh: &r.fresh, sigOf: r.v.sigOfComp, rangeOf: r.v.rangeOfComp}
	st.declare("alloc0", "Int")
	st.alloc = Term{S: "alloc0", Sort: SInt}
	st.assume(Le(IntLit(0), st.alloc))
	// the error values of the package exist before the call: nothing allocated later is one of them
	for _, g := range r.v.errGlobals {
		st.assume(Le(Term{S: sym("err." + g), Sort: SInt}, st.alloc))
	}
	for _, g := range extErrGlobals {
		st.assume(Le(Term{S: sym("err." + g), Sort: SInt}, st.alloc))
	}
	r.params = map[string]Value{}
	r.ptypes = map[string]types.Type{}
	r.lets = map[string]Value{}
	r.lettypes = map[string]types.Type{}
	for _, p := range r.fn.Params {
		v := r.v.freshValue(st, "p_"+p.Name(), p.Type())
		st.regs[p.Name()] = v
		r.params[p.Name()] = v
		r.ptypes[p.Name()] = p.Type()
		r.collectInputs(v)
		r.seedValue(st, p)
	}
	var fvs []Term
	for _, p := range r.fn.FreeVars {
		v := r.v.freshValue(st, "fv_"+p.Name(), p.Type())
		st.regs[p.Name()] = v
		r.params[p.Name()] = v
		r.ptypes[p.Name()] = p.Type()
		// a captured variable is a live heap cell (Go closure semantics): never nil, already allocated,
		// and distinct from every other captured variable
		if t, ok := v.(Term); ok && t.Sort == SInt {
			st.assume(And(Lt(IntLit(0), t), Le(t, st.alloc)))
			for _, q := range fvs {
				st.assume(Not(Eq(t, q)))
			}
			fvs = append(fvs, t)
		}
	}
	// lets, requires, assumes
	r.old = st.snap()
	for _, l := range r.c.Lets {
		c := &evalCtx{r: r, st: st, old: r.old, vars: r.baseVars(st), src: r.c.Src}
		tv := c.evalStr(l.Expr)
		r.lets[l.Name] = tv.V
		r.lettypes[l.Name] = tv.T
	}
	for _, q := range r.c.Requires {
		st.assume(r.evalBool(st, q.Expr, r.old, nil, q.Src))
	}
	for _, q := range r.c.Assumes {
		st.assume(r.evalBool(st, q.Expr, r.old, nil, q.Src))
	}
	r.old = st.snap()
	for _, d := range r.c.Decreases {
		r.entryMeasure = append(r.entryMeasure, r.evalInt(st, d.Expr, r.old, d.Src))
	}
	// cover: the preconditions are satisfiable
	o := &Obligation{Name: r.c.Target + "/cover:requires", Fn: r.c.Target, Kind: "cover", Props: r.c.Serves, Cmds: append([]string(nil), st.cmds...),
		Goal: BoolLit(false), Theory: r.c.Theory, IsCover: true, Src: r.c.Src}
	r.obls = append(r.obls, o)
	r.entrySt = st.clone()
	r.cutDone = map[int]bool{}
	return st
}

func (r *funcRun) collectInputs(v Value) {
	switch x := v.(type) {
	case Term:
		r.inputs = append(r.inputs, x.S)
	case *StructVal:
		for _, f := range x.F {
			r.collectInputs(f)
		}
	}
}

// resultNames gives the contract-visible names of a function's results.
func resultNames(sig *types.Signature) []string {
	res := sig.Results()
	var out []string
	for i := 0; i < res.Len(); i++ {
		n := res.At(i).Name()
		if n == "" || n == "_" {
			if res.Len() == 1 {
				n = "result"
			} else {
				n = fmt.Sprintf("result%d", i)
			}
		}
		out = append(out, n)
	}
	return out
}

func (r *funcRun) ret(st *State, x *ssa.Return) {
	// cover: this return is reachable under the preconditions (guards against
	// contradictory contracts making everything provable)
	r.counts["cover:return"]++
	if r.retOrd == nil {
		var ps []token.Pos
		for _, b := range r.fn.Blocks {
			for _, in := range b.Instrs {
				if rt, ok := in.(*ssa.Return); ok {
					ps = append(ps, rt.Pos())
				}
			}
		}
		sort.Slice(ps, func(i, j int) bool { return ps[i] < ps[j] })
		r.retOrd = map[token.Pos]int{}
		for _, p := range ps {
			if _, ok := r.retOrd[p]; !ok {
				r.retOrd[p] = len(r.retOrd) + 1
			}
		}
	}
	r.obls = append(r.obls, &Obligation{Name: fmt.Sprintf("%s/cover:return#%d", r.c.Target, r.counts["cover:return"]), Fn: r.c.Target, Kind: "cover",
		Props: r.c.Serves, Cmds: append([]string(nil), st.cmds...), Goal: BoolLit(false), Theory: r.c.Theory, IsCover: true, Src: r.pos(x), Trace: append([]int(nil), st.trace...),
		RetSite: r.retOrd[x.Pos()]})
	sig := r.fn.Signature
	names := resultNames(sig)
	extra := map[string]tval{}
	for i, res := range x.Results {
		v := r.val(st, res)
		extra[names[i]] = tval{v, sig.Results().At(i).Type()}
		if sig.Results().Len() == 1 {
			extra["result"] = extra[names[i]]
		}
	}
	for _, g := range r.c.Ghosts {
		if g.Expr == "" {
			c := &evalCtx{r: r, st: st, old: r.old, vars: r.baseVars(st), src: r.c.Src}
			t := c.parseType(g.Type)
			extra[g.Name] = tval{r.v.freshValue(st, "gh_"+g.Name, t), t}
			continue
		}
		vars := r.baseVars(st)
		for k, v := range extra {
			vars[k] = v
		}
		c := &evalCtx{r: r, st: st, old: r.old, vars: vars, src: r.c.Src, lenient: true}
		gv := r.evalOrFresh(c, g)
		// a definition that could not be evaluated on this path leaves the ghost unconstrained
		dt := c.parseType(g.Type)
		if ds, ok := r.v.leafSort(dt); ok {
			if t, isT := gv.V.(Term); !isT || t.Sort != ds {
				gv = tval{r.v.freshValue(st, "gh_"+g.Name, dt), dt}
			} else {
				gv.T = dt
			}
		}
		extra[g.Name] = gv
	}
	for _, ax := range r.c.AtExit {
		vars := r.baseVars(st)
		for kk, v := range extra {
			vars[kk] = v
		}
		r.atExit(st, ax, vars)
	}
	for k, e := range r.c.Ensures {
		vars := r.baseVars(st)
		for kk, v := range extra {
			vars[kk] = v
		}
		r.emitGoal(st, "post", "="+clauseID(e, k), e.Props, e.Expr, nil, r.old, vars, e.Src)
		// cut: later post-conditions may use the earlier ones
		st.assume(r.evalBool(st, e.Expr, r.old, extra, e.Src))
	}
	// ghost variables not named in modifies are left as they were (lock typestate etc.)
	{
		mods := map[string]bool{}
		for _, m := range r.c.Modifies {
			cmp, _ := splitMod(m)
			mods[cmp] = true
		}
		var gs []string
		for c := range st.heap {
			if strings.HasPrefix(c, "Ghost.") && !mods[c] {
				gs = append(gs, c)
			}
		}
		sort.Strings(gs)
		for _, comp := range gs {
			cur := st.heap[comp]
			old := st.compAt(r.old, comp, st.compSig[comp])
			if cur != old {
				r.emit(st, "ghost-frame", "="+comp, []string{"C08", "C09"}, mk(SBool, "(= %s %s)", cur, old), r.c.Src)
			}
		}
	}
	// frame: components not in modifies are unchanged; components modified "at" some
	// references are unchanged at every other reference allocated at entry
	if r.c.HasMod && r.c.Trusted == "" {
		whole, targets := r.modTargets(st, r.c, r.baseVars(st), r.old, r.old)
		allocs := map[string]bool{}
		for _, m := range r.v.expandMods(r.c.Allocates) {
			allocs[m] = true
		}
		var comps []string
		for c := range st.heap {
			comps = append(comps, c)
		}
		sort.Strings(comps)
		for _, comp := range comps {
			if whole[comp] || strings.HasPrefix(comp, "Cell[") || strings.HasPrefix(comp, "IterVisited") || strings.HasPrefix(comp, "Ghost.") {
				continue
			}
			sig := st.compSig[comp]
			cur := st.heap[comp]
			old := st.compAt(r.old, comp, sig)
			if cur == old {
				continue
			}
			if _, targeted := targets[comp]; !targeted && !allocs[comp] {
				// the component has a new version on this path although the contract neither lists it under
				// modifies nor under allocates: a caller would keep reading its old version (also at the
				// references this function allocated). Undeclared write: fails unless the path is infeasible.
				r.emit(st, "frame-undeclared", "="+comp, nil, BoolLit(false), r.c.Src)
				continue
			}
			g := r.frameFormula(sig, cur, old, r.old.alloc, targets[comp], false)
			r.emit(st, "frame", "="+comp, nil, g, r.c.Src)
		}
	}
}

// modTargets evaluates the modifies clause of a contract: components modifiable
// as a whole, and per component the references at which it may change.
func (r *funcRun) modTargets(st *State, c *Contract, vars map[string]tval, cur, old *HeapSnap) (map[string]bool, map[string][]Term) {
	whole := map[string]bool{}
	targets := map[string][]Term{}
	for _, m := range c.Modifies {
		comp, at := splitMod(m)
		comps := r.v.expandMods([]string{comp})
		if at == "" {
			for _, cc := range comps {
				whole[cc] = true
			}
			continue
		}
		ctx := &evalCtx{r: r, st: st, cur: cur, old: old, vars: vars, src: c.Src}
		tv := ctx.evalStr(at)
		t, ok := tv.V.(Term)
		if !ok || t.Sort != SInt {
			panic(specErr{fmt.Sprintf("%s: modifies target %q is not a reference", c.Src, at)})
		}
		for _, cc := range comps {
			targets[cc] = append(targets[cc], t)
		}
	}
	for cc := range whole {
		delete(targets, cc)
	}
	return whole, targets
}

// frameFormula: the component agrees with its old version at every reference
// allocated in the old state other than the targets.
func (r *funcRun) frameFormula(sig, cur, old string, alloc Term, targets []Term, pattern bool) Term {
	if !strings.HasPrefix(sig, "(Array Int ") {
		return mk(SBool, "(= %s %s)", cur, old)
	}
	conds := []Term{mk(SBool, "(<= 0 fr)"), mk(SBool, "(<= fr %s)", alloc.S)}
	for _, t := range targets {
		conds = append(conds, mk(SBool, "(not (= fr %s))", t.S))
	}
	// components of arity 2 are compared element-wise (avoids extensional array equality)
	inner := strings.TrimSuffix(strings.TrimPrefix(sig, "(Array Int "), ")")
	if strings.HasPrefix(inner, "(Array ") {
		ks := "Int"
		rest := strings.TrimPrefix(inner, "(Array ")
		if k := strings.Index(rest, " "); k > 0 {
			ks = rest[:k]
		}
		body := Imp(And(conds...), mk(SBool, "(= (select (select %s fr) fk) (select (select %s fr) fk))", cur, old))
		if pattern {
			return mk(SBool, "(forall ((fr Int) (fk %s)) (! %s :pattern ((select (select %s fr) fk))))", ks, body.S, cur)
		}
		return mk(SBool, "(forall ((fr Int) (fk %s)) %s)", ks, body.S)
	}
	body := Imp(And(conds...), mk(SBool, "(= (select %s fr) (select %s fr))", cur, old))
	if pattern {
		return mk(SBool, "(forall ((fr Int)) (! %s :pattern ((select %s fr))))", body.S, cur)
	}
	return mk(SBool, "(forall ((fr Int)) %s)", body.S)
}

func (v *Verifier) contractForCall(cc *ssa.CallCommon) *Contract {
	if cc.IsInvoke() {
		recv := cc.Value.Type()
		name := typeString(recv) + "." + cc.Method.Name()
		return v.spec.Contracts[name]
	}
	if fn := cc.StaticCallee(); fn != nil {
		return v.contractFor(fn)
	}
	return nil
}

func (v *Verifier) contractFor(fn *ssa.Function) *Contract {
	if fn.Pkg == v.pkg {
		if c, ok := v.spec.Contracts[fn.RelString(v.pkg.Pkg)]; ok {
			return c
		}
		return nil
	}
	if c, ok := v.spec.Contracts[fn.String()]; ok {
		return c
	}
	return nil
}

// expandMods expands modifies entries: a name that is a prefix of leaf components
// (e.g. a struct-typed field) stands for all of them; "Elem[T]" etc are literal.
func (v *Verifier) expandMods(mods []string) []string {
	var out []string
	for _, m := range mods {
		m, _ = splitMod(m)
		if alias, ok := v.modAliases[m]; ok {
			out = append(out, alias...)
			continue
		}
		if _, ok := v.sigOfComp(m); !ok {
			if leaves := v.structLeaves(m); len(leaves) > 0 {
				v.modAliases[m] = leaves
				out = append(out, leaves...)
				continue
			}
		}
		out = append(out, m)
	}
	return out
}

func (r *funcRun) call(st *State, cc *ssa.CallCommon, instr ssa.Instruction, resT types.Type) Value {
	if b, ok := cc.Value.(*ssa.Builtin); ok {
		return r.builtin(st, b, cc, instr, resT)
	}
	var args []Value
	var names []string
	var ptypes []types.Type
	c := r.v.contractForCall(cc)
	callee := ""
	var sig *types.Signature
	if cc.IsInvoke() {
		recv := r.val(st, cc.Value)
		if rt, ok := recv.(Term); ok {
			r.emit(st, "nil-deref", "", []string{"C19"}, Not(Ident(rt, IntLit(0))), r.pos(instr))
			st.assume(Not(Ident(rt, IntLit(0))))
		}
		args = append(args, recv)
		ptypes = append(ptypes, cc.Value.Type())
		callee = typeString(cc.Value.Type()) + "." + cc.Method.Name()
		sig = cc.Method.Type().(*types.Signature)
	} else if fn := cc.StaticCallee(); fn != nil {
		callee = fn.RelString(r.v.pkg.Pkg)
		if fn.Pkg != r.v.pkg {
			callee = fn.String()
		}
		sig = fn.Signature
		if len(fn.Params) == len(cc.Args) {
			for _, p := range fn.Params {
				names = append(names, p.Name())
			}
		}
		if fn.Signature.Recv() != nil && len(cc.Args) > 0 {
			// method call on possibly nil pointer is legal; deref obligations arise in the callee
		}
	} else {
		// dynamic call of a function value: contracts are keyed by the type of the value
		callee = "dyn:" + typeString(cc.Value.Type())
		sig, _ = cc.Value.Type().Underlying().(*types.Signature)
		if c == nil {
			c = r.v.spec.Contracts[callee]
		}
	}
	for _, a := range cc.Args {
		args = append(args, r.val(st, a))
		ptypes = append(ptypes, a.Type())
	}
	if c != nil && len(c.Params) > 0 {
		names = c.Params
	}
	if callee == "fmt.Errorf" {
		return r.errorf(st, cc, args)
	}
	if callee == "fmt.Sprintf" {
		if v, ok := r.sprintf(st, cc, args); ok {
			return v
		}
	}
	if strings.HasPrefix(callee, "(*sync.RWMutex).") || strings.HasPrefix(callee, "(*sync.Mutex).") {
		if r.lockOp(st, callee, args, instr) {
			return &TupleVal{}
		}
	}
	if c == nil {
		// no contract: everything may change, result unconstrained
		r.note("uncontracted_call " + callee)
		st.havocAll()
		if fn := cc.StaticCallee(); (fn != nil && fn.Pkg == r.v.pkg) || strings.HasPrefix(callee, "dyn:") {
			// a function of the package without contract may do anything, also with the locks
			var gs []string
			for g := range r.v.spec.GhostVars {
				gs = append(gs, g)
			}
			sort.Strings(gs)
			st.havocGhosts(gs)
		}
		return r.v.freshValue(st, "ret", resT)
	}
	if len(names) != len(args) {
		names = nil
		if sig != nil {
			if cc.IsInvoke() {
				names = append(names, "self")
			} else if sig.Recv() != nil {
				names = append(names, "self")
			}
			for i := 0; i < sig.Params().Len(); i++ {
				n := sig.Params().At(i).Name()
				if n == "" || n == "_" {
					n = fmt.Sprintf("arg%d", i)
				}
				names = append(names, n)
			}
		}
		if len(names) != len(args) {
			panic(unsupported(fmt.Sprintf("call of %s: cannot name arguments (%d names, %d args)", callee, len(names), len(args))))
		}
	}
	hintKeys := []string{callee}
	for hb, ord := range r.loopOrd {
		if blk := instr.Block(); blk != nil {
			// in the loop body, or in an early exit of the body (dominated by a body block)
			body := loopBlocks(r.fn.Blocks[hb])
			_, in := body[blk.Index]
			for bi, bb := range body {
				if bi != hb && bb.Dominates(blk) {
					in = true
				}
			}
			if in {
				hintKeys = append(hintKeys, fmt.Sprintf("%s@loop%d", callee, ord))
			}
		}
	}
	sort.Strings(hintKeys)
	for _, hk := range hintKeys {
		for k, h := range r.c.CallHints[hk] {
			r.emitGoal(st, "call-hint", "="+hk+"."+clauseID(h, k), h.Props, h.Expr, nil, r.old, r.baseVars(st), h.Src+" at "+r.pos(instr))
			st.assume(r.evalBool(st, h.Expr, r.old, nil, h.Src))
		}
	}
	return r.applyContract(st, c, callee, names, args, ptypes, sig, instr, resT)
}

func (r *funcRun) applyContract(st *State, c *Contract, callee string, names []string, args []Value, ptypes []types.Type,
	sig *types.Signature, instr ssa.Instruction, resT types.Type) Value {
	vars := map[string]tval{}
	for i, n := range names {
		vars[n] = tval{args[i], ptypes[i]}
	}
	for k, v := range st.names {
		if strings.HasPrefix(k, "$") {
			vars[k] = tval{v, tInt}
		}
	}
	pre := st.snap()
	ctx := &evalCtx{r: r, st: st, old: pre, vars: vars, src: c.Src}
	for _, l := range c.Lets {
		ctx.src = c.Src
		vars[l.Name] = ctx.evalStr(l.Expr)
	}
	for k, q := range c.Requires {
		ctx.src = q.Src
		r.emitGoal(st, "call-pre", "="+callee+"."+clauseID(q, k), q.Props, q.Expr, nil, pre, vars, q.Src+" at "+r.pos(instr))
		st.assume(ctx.boolExpr(q.Expr))
	}
	// recursion: measure decreases
	if c == r.c && len(c.Decreases) > 0 {
		for k, d := range c.Decreases {
			ctx.src = d.Src
			tv := ctx.evalStr(d.Expr)
			m := tv.V.(Term)
			if k < len(r.entryMeasure) {
				r.emit(st, "rec-decreases", "", []string{"C09", "C19"}, And(Le(IntLit(0), r.entryMeasure[k]), Lt(m, r.entryMeasure[k])), d.Src)
			}
		}
	}
	// havoc frame (the allocation counter is advanced first so that the new versions of
	// the components may hold references allocated by the callee)
	if !c.HasMod {
		r.note("call of " + callee + " has no modifies clause: whole heap havocked")
		st.havocAll()
	} else {
		whole, targets := r.modTargets(st, c, vars, pre, pre)
		if !c.Pure {
			st.bumpAlloc()
		}
		sigOf := func(m string) (string, bool) {
			sig, known := st.compSig[m]
			if !known {
				if sg, found := r.v.sigOfComp(m); found {
					st.compSig[m] = sg
					sig, known = sg, true
				}
			}
			return sig, known
		}
		for _, m := range sortedBoolKeys(whole) {
			if m == everything {
				st.havocAll()
				break
			}
			st.havocComp(m)
		}
		framed := map[string][]Term{}
		for m, tg := range targets {
			framed[m] = tg
		}
		for _, m := range r.v.expandMods(c.Allocates) {
			if !whole[m] {
				if _, ok := framed[m]; !ok {
					framed[m] = nil
				}
			}
		}
		var fk []string
		for m := range framed {
			fk = append(fk, m)
		}
		sort.Strings(fk)
		for _, m := range fk {
			sig, known := sigOf(m)
			if !known {
				st.havocComp(m)
				r.note("frame of " + m + " lost at call of " + callee + ": component sort unknown")
				continue
			}
			before := st.comp(m, sig)
			st.havocComp(m)
			after := st.comp(m, sig)
			st.assume(r.frameFormula(sig, after, before, pre.alloc, framed[m], true))
		}
	}
	// results
	var res Value
	if tp, ok := resT.(*types.Tuple); ok {
		if tp.Len() == 0 {
			res = &TupleVal{}
		} else {
			res = r.v.freshValue(st, "ret_"+shortName(callee), tp)
		}
	} else {
		res = r.v.freshValue(st, "ret_"+shortName(callee), resT)
	}
	if sig != nil {
		rn := resultNames(sig)
		if len(c.Results) == len(rn) {
			rn = c.Results
		}
		if tv, ok := res.(*TupleVal); ok && len(tv.E) == len(rn) {
			for i, n := range rn {
				vars[n] = tval{tv.E[i], sig.Results().At(i).Type()}
			}
		} else if len(rn) == 1 {
			vars[rn[0]] = tval{res, sig.Results().At(0).Type()}
			vars["result"] = vars[rn[0]]
		}
	}
	for _, g := range c.Ghosts {
		t := ctx.parseType(g.Type)
		vars[g.Name] = tval{r.v.freshValue(st, "gh_"+g.Name, t), t}
		st.names[shortName(callee)+"_"+g.Name] = vars[g.Name].V
		st.ntypes[shortName(callee)+"_"+g.Name] = t
	}
	for _, e := range c.Ensures {
		ctx.src = e.Src
		st.assume(ctx.boolExpr(e.Expr))
	}
	for _, e := range c.Lemmas {
		ctx.src = e.Src
		st.assume(ctx.boolExpr(e.Expr))
	}
	return res
}

func shortName(s string) string {
	if k := strings.LastIndex(s, "."); k >= 0 {
		s = s[k+1:]
	}
	return strings.Trim(s, "()*")
}

func (r *funcRun) deferCall(st *State, d *ssa.Defer) {
	cc := d.Call
	// evaluate the arguments now
	frozen := map[string]Value{}
	for _, a := range cc.Args {
		if _, isConst := a.(*ssa.Const); !isConst {
			if v, ok := st.regs[a.Name()]; ok {
				frozen[a.Name()] = v
			}
		}
	}
	if !cc.IsInvoke() {
		if v, ok := st.regs[cc.Value.Name()]; ok {
			frozen[cc.Value.Name()] = v
		}
	}
	st.defers = append(st.defers, deferred{call: func(s *State) {
		saved := map[string]Value{}
		for k, v := range frozen {
			saved[k] = s.regs[k]
			s.regs[k] = v
		}
		// the results of a deferred call are discarded, but its contract may speak about them
		var resT types.Type = types.NewTuple()
		if sg := cc.Signature(); sg != nil {
			switch sg.Results().Len() {
			case 0:
			case 1:
				resT = sg.Results().At(0).Type()
			default:
				resT = sg.Results()
			}
		}
		r.call(s, &cc, d, resT)
		for k, v := range saved {
			if v != nil {
				s.regs[k] = v
			}
		}
	}})
}

func (r *funcRun) goStmt(st *State, g *ssa.Go) {
	r.note("go statement at " + r.pos(g) + ": spawned function verified as a separate entry point; no interleaving semantics")
}

func (r *funcRun) blocking(st *State, kind string, in ssa.Instruction) {
	if _, ok := r.v.spec.GhostVars["H"]; ok {
		c := &evalCtx{r: r, st: st, old: r.old, vars: r.baseVars(st), src: r.pos(in)}
		g := c.boolExpr("H == 0 && HS == 0 && HM == 0")
		r.emit(st, "no-blocking-under-lock", kind, []string{"C09"}, g, r.pos(in))
	}
}

// lockset obligations: every access to guarded memory happens under the right lock mode.
func (r *funcRun) lockset(st *State, loc *Loc, write bool, in ssa.Instruction) {
	r.locksetComp(st, loc.Prefix, write, in)
}

func (r *funcRun) locksetComp(st *State, comp string, write bool, in ssa.Instruction) {
	if !r.v.locksetOn(r.c) {
		return
	}
	guard := r.v.guardOf(comp)
	if guard == "" {
		return
	}
	c := &evalCtx{r: r, st: st, old: r.old, vars: r.baseVars(st), src: r.pos(in)}
	var g Term
	switch guard {
	case "db":
		if write {
			g = c.boolExpr("H == 2")
		} else {
			g = c.boolExpr("H >= 1")
		}
	default:
		return
	}
	kind := "lockset-read"
	if write {
		kind = "lockset-write"
	}
	r.emit(st, kind, comp, []string{"C08"}, g, r.pos(in))
}

func (v *Verifier) locksetOn(c *Contract) bool {
	for _, s := range c.Serves {
		if s == "C08" {
			return true
		}
	}
	return false
}

func (v *Verifier) guardOf(comp string) string {
	best := ""
	g := ""
	for p, name := range v.spec.Guards {
		if strings.HasPrefix(comp, p) && len(p) > len(best) {
			best, g = p, name
		}
	}
	return g
}

// ---- builtins ----

func (r *funcRun) builtin(st *State, b *ssa.Builtin, cc *ssa.CallCommon, instr ssa.Instruction, resT types.Type) Value {
	switch b.Name() {
	case "len":
		x := r.term(st, cc.Args[0])
		switch x.Sort {
		case SSlice:
			return SlLen(x)
		case SStr:
			return mk(SInt, "(str.len %s)", x.S)
		case SInt:
			if mt, ok := cc.Args[0].Type().Underlying().(*types.Map); ok {
				mi := r.v.mapInfo(mt)
				card := st.comp("MapCard["+strings.TrimPrefix(mi.dom, "MapDom["), "(Array Int Int)")
				c := st.freshConst("maplen", SInt)
				st.assume(Ident(c, Ite(Ident(x, IntLit(0)), IntLit(0), mk(SInt, "(select %s %s)", card, x.S))))
				st.assume(Le(IntLit(0), c))
				return c
			}
			c := st.freshConst("chanlen", SInt)
			st.assume(Le(IntLit(0), c))
			return c
		}
	case "cap":
		x := r.term(st, cc.Args[0])
		if x.Sort == SSlice {
			return SlCap(x)
		}
		c := st.freshConst("cap", SInt)
		st.assume(Le(IntLit(0), c))
		return c
	case "append":
		return r.appendOp(st, cc, instr)
	case "copy":
		return r.copyOp(st, cc, instr)
	case "delete":
		m := r.term(st, cc.Args[0])
		k := r.term(st, cc.Args[1])
		st.seedKey(k)
		mt := cc.Args[0].Type().Underlying().(*types.Map)
		mi := r.v.mapInfo(mt)
		r.locksetComp(st, mi.dom, true, instr)
		d := st.comp(mi.dom, mi.domSig)
		st.setComp(mi.dom, mi.domSig, fmt.Sprintf("(ite (= %s 0) %s (store %s %s (store (select %s %s) %s false)))", m.S, d, d, m.S, d, m.S, k.S))
		r.mapCardUpdate(st, mi, m, k, false, d)
		return &TupleVal{}
	case "print", "println", "close":
		return &TupleVal{}
	case "recover":
		return Term{S: "VNil", Sort: SVal}
	case "ssa:wrapnilchk":
		return r.val(st, cc.Args[0])
	}
	panic(unsupported("builtin " + b.Name()))
}

// mapCardUpdate maintains the abstract cardinality of a map.
func (r *funcRun) mapCardUpdate(st *State, mi mapInfo, m, k Term, insert bool, oldDom string) {
	name := "MapCard[" + strings.TrimPrefix(mi.dom, "MapDom[")
	card := st.comp(name, "(Array Int Int)")
	had := mk(SBool, "(select (select %s %s) %s)", oldDom, m.S, k.S)
	var nv string
	if insert {
		nv = fmt.Sprintf("(store %s %s (ite %s (select %s %s) (+ (select %s %s) 1)))", card, m.S, had.S, card, m.S, card, m.S)
	} else {
		nv = fmt.Sprintf("(ite (= %s 0) %s (store %s %s (ite %s (- (select %s %s) 1) (select %s %s))))", m.S, card, card, m.S, had.S, card, m.S, card, m.S)
	}
	st.setComp(name, "(Array Int Int)", nv)
}

func (r *funcRun) appendOp(st *State, cc *ssa.CallCommon, instr ssa.Instruction) Value {
	s := r.term(st, cc.Args[0])
	slt := cc.Args[0].Type().Underlying().(*types.Slice)
	et := slt.Elem()
	tv := r.val(st, cc.Args[1])
	t, ok := tv.(Term)
	if !ok {
		panic(unsupported("append of non-slice"))
	}
	if t.Sort == SStr {
		panic(unsupported("append string to []byte"))
	}
	lens, lent := SlLen(s), SlLen(t)
	total := Add(lens, lent)
	inplace := st.freshConst("inplace", SBool)
	st.assume(Ident(inplace, Le(total, SlCap(s))))
	fr := st.newRef("grown")
	ncap := st.freshConst("newcap", SInt)
	st.assume(And(Le(total, ncap), Le(ncap, Term{S: "72057594037927936", Sort: SInt})))
	st.assume(Le(total, Term{S: "72057594037927936", Sort: SInt}))
	ar := Ite(inplace, SlArr(s), fr)
	for _, lc := range r.v.leafCompsS("Elem["+typeString(et)+"]", et) {
		r.locksetComp(st, lc.Name, true, instr)
		sig := compSort(lc.Sort, 2)
		E := st.comp(lc.Name, sig)
		A := st.freshName("arrnew")
		st.declare(A, arraySort("Int", string(lc.Sort)))
		As := sym(A)
		inPlaceVal := fmt.Sprintf("(ite (and (<= (+ %s %s) k) (< k (+ %s %s))) (select (select %s %s) (at %s (- k (+ %s %s)))) (select (select %s %s) k))",
			SlOff(s).S, lens.S, SlOff(s).S, total.S, E, SlArr(t).S, t.S, SlOff(s).S, lens.S, E, SlArr(s).S)
		growVal := fmt.Sprintf("(ite (and (<= 0 k) (< k %s)) (select (select %s %s) (at %s k)) (ite (and (<= %s k) (< k %s)) (select (select %s %s) (at %s (- k %s))) %s))",
			lens.S, E, SlArr(s).S, s.S, lens.S, total.S, E, SlArr(t).S, t.S, lens.S, zeroOf(lc.Sort).S)
		st.cmds = append(st.cmds, fmt.Sprintf("(assert (forall ((k Int)) (! (= (select %s k) (ite %s %s %s)) :pattern ((select %s k)))))", As, inplace.S, inPlaceVal, growVal, As))
		st.setComp(lc.Name, sig, fmt.Sprintf("(store %s %s %s)", E, ar.S, As))
	}
	res := st.freshConst("app", SSlice)
	st.assume(Ident(res, Ite(inplace, MkSlice(SlArr(s), SlOff(s), total, SlCap(s)), MkSlice(fr, IntLit(0), total, ncap))))
	// bridge: an element position of the result names the same position of the source
	// (gives the quantified facts about the source a trigger)
	st.cmds = append(st.cmds, fmt.Sprintf("(assert (forall ((i Int)) (! (=> %s (= (at %s i) (at %s i))) :pattern ((at %s i)))))", inplace.S, res.S, s.S, res.S))
	return res
}

func (r *funcRun) copyOp(st *State, cc *ssa.CallCommon, instr ssa.Instruction) Value {
	d := r.term(st, cc.Args[0])
	sv := r.term(st, cc.Args[1])
	if sv.Sort == SStr {
		panic(unsupported("copy from string"))
	}
	et := cc.Args[0].Type().Underlying().(*types.Slice).Elem()
	n := st.freshConst("copied", SInt)
	st.assume(Ident(n, Ite(Le(SlLen(d), SlLen(sv)), SlLen(d), SlLen(sv))))
	for _, lc := range r.v.leafCompsS("Elem["+typeString(et)+"]", et) {
		r.locksetComp(st, lc.Name, true, instr)
		sig := compSort(lc.Sort, 2)
		E := st.comp(lc.Name, sig)
		A := st.freshName("arrcpy")
		st.declare(A, arraySort("Int", string(lc.Sort)))
		As := sym(A)
		val := fmt.Sprintf("(ite (and (<= %s k) (< k (+ %s %s))) (select (select %s %s) (at %s (- k %s))) (select (select %s %s) k))",
			SlOff(d).S, SlOff(d).S, n.S, E, SlArr(sv).S, sv.S, SlOff(d).S, E, SlArr(d).S)
		st.cmds = append(st.cmds, fmt.Sprintf("(assert (forall ((k Int)) (! (= (select %s k) %s) :pattern ((select %s k)))))", As, val, As))
		st.setComp(lc.Name, sig, fmt.Sprintf("(store %s %s %s)", E, SlArr(d).S, As))
		// positional form (a consequence of the definition above): element j of the destination is
		// element j of the source; either side is a trigger
		st.cmds = append(st.cmds, fmt.Sprintf("(assert (forall ((j Int)) (! (=> (and (<= 0 j) (< j %s)) (= (select %s (at %s j)) (select (select %s %s) (at %s j)))) :pattern ((at %s j)) :pattern ((at %s j)))))",
			n.S, As, d.S, E, SlArr(sv).S, sv.S, d.S, sv.S))
	}
	return n
}

// emitGoal evaluates a contract clause as a goal: it is split into conjuncts,
// universally quantified conjuncts are skolemised, and each part becomes one obligation.
func (r *funcRun) emitGoal(st *State, kind, detail string, props []string, expr string, cur, old *HeapSnap, vars map[string]tval, src string) {
	e, err := parser.ParseExpr(expr)
	if err != nil {
		panic(specErr{fmt.Sprintf("%s: parse error in %q: %v", src, expr, err)})
	}
	sc0 := st.clone()
	base := &evalCtx{r: r, st: sc0, cur: cur, old: old, vars: vars, src: src}
	parts := base.goalParts(e)
	for i, p := range parts {
		sc := sc0.clone()
		ctx := *p.ctx
		ctx.st = sc
		ctx.skolem = true
		tv := ctx.eval(p.e)
		g, ok := tv.V.(Term)
		if !ok || g.Sort != SBool {
			panic(specErr{fmt.Sprintf("%s: goal is not boolean: %s", src, exprString(p.e))})
		}
		d := detail
		if len(parts) > 1 {
			d = fmt.Sprintf("%s.%d", detail, i+1)
		}
		r.emit(sc, kind, d, props, g, src)
	}
}

func sortedBoolKeys(m map[string]bool) []string {
	var out []string
	for k := range m {
		out = append(out, k)
	}
	sort.Strings(out)
	return out
}

// atExit performs a definitional ghost update target[var] := expr(var).
func (r *funcRun) atExit(st *State, ax AtExit, vars map[string]tval) {
	ctx := &evalCtx{r: r, st: st, old: r.old, vars: vars, src: ax.Src}
	e, err := parser.ParseExpr(ax.Target)
	if err != nil {
		ctx.fail("bad atexit target %q", ax.Target)
	}
	sel, ok := e.(*ast.SelectorExpr)
	if !ok {
		ctx.fail("atexit target must be a ghost field selector")
	}
	base := ctx.eval(sel.X)
	pt, ok := base.T.Underlying().(*types.Pointer)
	if !ok {
		ctx.fail("atexit target base must be a pointer")
	}
	ft, _, ok := ctx.fieldOf(pt.Elem(), sel.Sel.Name)
	if ok && ax.Var == "" {
		// scalar ghost field: target := expr
		tv := ctx.evalStr(ax.Expr)
		loc := &Loc{Prefix: r.v.structName(pt.Elem()) + "." + sel.Sel.Name, Idx: []Term{base.V.(Term)}, Type: ft}
		r.v.writeLoc(st, loc, tv.V)
		return
	}
	if !ok || !r.v.ghostArrays[ft] {
		ctx.fail("atexit target %s is not a ghost array field", ax.Target)
	}
	mt := ft.(*types.Map)
	ks, _ := r.v.leafSort(mt.Key())
	as, _ := r.v.leafSort(ft)
	A := st.freshConst("ghost_"+sel.Sel.Name, as)
	*st.fresh++
	q := fmt.Sprintf("q_%s%d", ax.Var, *st.fresh)
	body := ctx.bind(ax.Var, tval{Term{S: q, Sort: ks}, mt.Key()}).evalStr(ax.Expr)
	bt := body.V.(Term)
	st.cmds = append(st.cmds, fmt.Sprintf("(assert (forall ((%s %s)) (! (= (select %s %s) %s) :pattern ((select %s %s)))))", q, string(ks), A.S, q, bt.S, A.S, q))
	loc := &Loc{Prefix: r.v.structName(pt.Elem()) + "." + sel.Sel.Name, Idx: []Term{base.V.(Term)}, Type: ft}
	r.v.writeLoc(st, loc, A)
}

// errorf models fmt.Errorf: a fresh non-nil error which wraps the operand of %w, if any.
func (r *funcRun) errorf(st *State, cc *ssa.CallCommon, args []Value) Value {
	e := st.freshConst("errorf", SInt)
	st.assume(Lt(IntLit(0), e))
	var names []string
	for _, g := range r.v.errGlobals {
		names = append(names, sym("err."+g))
	}
	for _, g := range extErrGlobals {
		names = append(names, sym("err."+g))
	}
	for _, n := range names {
		st.assume(Not(Ident(e, Term{S: n, Sort: SInt})))
	}
	wrapped := Term{}
	if fc, ok := cc.Args[0].(*ssa.Const); ok && fc.Value != nil {
		format := constant.StringVal(fc.Value)
		// index of the %w verb among the verbs
		k := -1
		n := 0
		for i := 0; i+1 < len(format); i++ {
			if format[i] != '%' {
				continue
			}
			if format[i+1] == '%' {
				i++
				continue
			}
			j := i + 1
			for j < len(format) && strings.ContainsRune("+-# 0123456789.", rune(format[j])) {
				j++
			}
			if j < len(format) {
				if format[j] == 'w' {
					k = n
				}
				n++
			}
			i = j
		}
		if k >= 0 {
			if sl, ok := args[1].(Term); ok && sl.Sort == SSlice {
				loc := r.v.elemLoc(SlArr(sl), At(sl, IntLit(int64(k))), tAny)
				v := r.v.readLoc(st, nil, loc).(Term)
				wrapped = mk(SInt, "(ite ((_ is VOther) %s) (vpay %s) 0)", v.S, v.S)
			}
		}
	} else {
		r.note("fmt.Errorf with non-constant format: wrapped error unknown")
		w := st.freshConst("wrapped", SInt)
		wrapped = w
	}
	if _, ok := r.v.spec.SmtFuns["isStorage"]; ok {
		if wrapped.S != "" {
			st.assume(mk(SBool, "(= (isStorage %s) (isStorage %s))", e.S, wrapped.S))
		} else {
			st.assume(mk(SBool, "(not (isStorage %s))", e.S))
		}
	}
	if wrapped.S != "" {
		st.cmds = append(st.cmds, fmt.Sprintf("(assert (forall ((t Int)) (! (= (errIs %s t) (or (= t %s) (errIs %s t))) :pattern ((errIs %s t)))))", e.S, e.S, wrapped.S, e.S))
	} else {
		st.cmds = append(st.cmds, fmt.Sprintf("(assert (forall ((t Int)) (! (= (errIs %s t) (= t %s)) :pattern ((errIs %s t)))))", e.S, e.S, e.S))
	}
	return e
}

// evalOrFresh evaluates a ghost definition; when it mentions a name that is not
// bound on this path (e.g. the ghost result of a callee that was not called) the
// ghost is left unconstrained.
func (r *funcRun) evalOrFresh(c *evalCtx, g GhostOut) (out tval) {
	defer func() {
		if e := recover(); e != nil {
			if se, ok := e.(specErr); ok && strings.Contains(se.msg, "unknown identifier") {
				t := c.parseType(g.Type)
				out = tval{r.v.freshValue(c.st, "gh_"+g.Name, t), t}
				return
			}
			panic(e)
		}
	}()
	return c.evalStr(g.Expr)
}

// structLeaves expands "Struct.field" naming a struct-typed field into its leaf components.
func (v *Verifier) structLeaves(name string) []string {
	parts := strings.Split(name, ".")
	if len(parts) < 2 {
		return nil
	}
	tv, err := types.Eval(v.prog.Fset, v.pkg.Pkg, 0, parts[0])
	if err != nil || tv.Type == nil {
		return nil
	}
	t := tv.Type
	for _, f := range parts[1:] {
		found := false
		for _, fi := range structFieldsOf(t) {
			if fi.Name == f {
				t, found = fi.Type, true
				break
			}
		}
		if !found {
			return nil
		}
	}
	if classify(t) != kStruct || v.opaqueStruct(t) {
		return nil
	}
	return v.leafComps(name, t)
}

// lockOp models sync.(RW)Mutex operations on mutexes that are tied to a ghost variable:
// typestate (C08), non-re-entrancy and lock order (C09).
func (r *funcRun) lockOp(st *State, callee string, args []Value, instr ssa.Instruction) bool {
	loc, ok := args[0].(*Loc)
	if !ok {
		return false
	}
	var lv *LockVar
	for p, v := range r.v.spec.LockVars {
		if loc.Prefix == p {
			lv = v
		}
	}
	if lv == nil {
		return false
	}
	gt := r.ghostTerm(st, lv.Ghost)
	op := callee[strings.LastIndex(callee, ".")+1:]
	set := func(v int64) {
		r.v.writeLoc(st, &Loc{Prefix: "Ghost." + lv.Ghost, Type: types.Typ[types.Int]}, IntLit(v))
	}
	switch op {
	case "Lock", "RLock":
		// never re-acquire a lock already held (a second RLock behind a queued writer deadlocks)
		r.emit(st, "lock-not-held", "="+lv.Ghost+"."+op, []string{"C09", "C08"}, Ident(gt, IntLit(0)), r.pos(instr))
		// lock order (highest rank first): no lock of a lower rank may be held
		var others []*LockVar
		for _, o := range r.v.spec.LockVars {
			others = append(others, o)
		}
		sort.Slice(others, func(i, j int) bool { return others[i].Ghost < others[j].Ghost })
		for _, o := range others {
			if o.Rank < lv.Rank {
				r.emit(st, "lock-order", "="+lv.Ghost+"-after-"+o.Ghost, []string{"C09"}, Ident(r.ghostTerm(st, o.Ghost), IntLit(0)), r.pos(instr))
			}
		}
		if op == "Lock" {
			set(2)
		} else {
			set(1)
		}
		if acq, ok := r.v.spec.GhostVars["ACQ_"+lv.Ghost]; ok {
			_ = acq
			cur := r.ghostTerm(st, "ACQ_"+lv.Ghost)
			r.v.writeLoc(st, &Loc{Prefix: "Ghost.ACQ_" + lv.Ghost, Type: types.Typ[types.Int]}, Add(cur, IntLit(1)))
		}
	case "Unlock":
		r.emit(st, "unlock-held", "="+lv.Ghost+".Unlock", []string{"C08", "C09"}, Ident(gt, IntLit(2)), r.pos(instr))
		set(0)
	case "RUnlock":
		r.emit(st, "unlock-held", "="+lv.Ghost+".RUnlock", []string{"C08", "C09"}, Ident(gt, IntLit(1)), r.pos(instr))
		set(0)
	default:
		return false
	}
	return true
}

func (r *funcRun) ghostTerm(st *State, name string) Term {
	return r.v.readLoc(st, nil, &Loc{Prefix: "Ghost." + name, Type: types.Typ[types.Int]}).(Term)
}

// sprintf models fmt.Sprintf for constant formats made of %s verbs and literal text:
// the concatenation of the pieces (string operands).
func (r *funcRun) sprintf(st *State, cc *ssa.CallCommon, args []Value) (Value, bool) {
	fc, ok := cc.Args[0].(*ssa.Const)
	if !ok || fc.Value == nil {
		return nil, false
	}
	format := constant.StringVal(fc.Value)
	sl, ok := args[1].(Term)
	if !ok || sl.Sort != SSlice {
		return nil, false
	}
	var parts []string
	lit := ""
	n := 0
	for i := 0; i < len(format); i++ {
		if format[i] == '%' && i+1 < len(format) {
			switch format[i+1] {
			case 's':
				if lit != "" {
					parts = append(parts, StrLit(lit).S)
					lit = ""
				}
				loc := r.v.elemLoc(SlArr(sl), At(sl, IntLit(int64(n))), tAny)
				v := r.v.readLoc(st, nil, loc).(Term)
				parts = append(parts, mk(SStr, "(ite ((_ is VStr) %s) (vstr %s) (strof %s))", v.S, v.S, v.S).S)
				n++
				i++
				continue
			case '%':
				lit += "%"
				i++
				continue
			default:
				return nil, false
			}
		}
		lit += string(format[i])
	}
	if lit != "" {
		parts = append(parts, StrLit(lit).S)
	}
	switch len(parts) {
	case 0:
		return StrLit(""), true
	case 1:
		return Term{S: parts[0], Sort: SStr}, true
	}
	return Term{S: "(str.++ " + strings.Join(parts, " ") + ")", Sort: SStr}, true
}
