package main

import (
	"sync"
	"flag"
	"fmt"
	"os"
	"sort"
	"strings"
)

func main() {
	if len(os.Args) < 2 {
		fmt.Fprintln(os.Stderr, "usage: sodvc <fn|check|selftest> ...")
		os.Exit(2)
	}
	switch os.Args[1] {
	case "fn":
		cmdFn(os.Args[2:])
	case "check":
		cmdCheck(os.Args[2:])
	default:
		fmt.Fprintln(os.Stderr, "unknown command")
		os.Exit(2)
	}
}

// cmdFn: debug — verify the named functions and print every obligation.
func cmdFn(args []string) {
	fs := flag.NewFlagSet("fn", flag.ExitOnError)
	repo := fs.String("repo", "/repo", "repository")
	specDir := fs.String("spec", "/verif/contracts", "spec directory")
	out := fs.String("out", "/tmp/sodvc-out", "smt output dir")
	timeout := fs.Int("t", 10000, "timeout ms")
	verbose := fs.Bool("v", false, "verbose")
	fs.Parse(args)
	v, err := loadVerifier(*repo, *specDir)
	if err != nil {
		fmt.Fprintln(os.Stderr, "load:", err)
		os.Exit(2)
	}
	os.MkdirAll(*out, 0755)
	names := fs.Args()
	if len(names) == 0 {
		names = v.spec.Order
	}
	bad := 0
	// generation in parallel (one function per worker), then one discharge stage over everything
	type gen struct {
		obls  []*Obligation
		notes []string
		err   error
	}
	gens := make([]gen, len(names))
	{
		var wg sync.WaitGroup
		sem := make(chan struct{}, 1) // generation is sequential: the verifier caches are not synchronised
		for i, n := range names {
			c := v.spec.Contracts[n]
			if c == nil || c.Kind != "func" || c.Trusted != "" {
				continue
			}
			wg.Add(1)
			go func(i int, c *Contract) {
				defer wg.Done()
				sem <- struct{}{}
				defer func() { <-sem }()
				o, nt, e := v.verifyFunction(c)
				gens[i] = gen{o, nt, e}
			}(i, c)
		}
		wg.Wait()
		var all []*Obligation
		for _, g := range gens {
			all = append(all, g.obls...)
		}
		v.dischargeAll(all, *out, *timeout, false, 16)
	}
	for i, n := range names {
		c := v.spec.Contracts[n]
		if c == nil {
			fmt.Println("no contract for", n)
			continue
		}
		if c.Kind != "func" || c.Trusted != "" {
			continue
		}
		obls, notes, err := gens[i].obls, gens[i].notes, gens[i].err
		if err != nil {
			fmt.Println("ERROR", err)
			bad++
		}
		sort.SliceStable(obls, func(i, j int) bool { return obls[i].Name < obls[j].Name })
		nok := 0
		retCovers, retDead := 0, 0
		for _, o := range obls {
			if o.IsCover && strings.Contains(o.Name, "cover:return") {
				retCovers++
				if o.Result == "unsat" {
					retDead++
				}
			}
		}
		for _, d := range v.deadReturns(obls) {
			fmt.Printf("  FAIL %s: %s\n", d.Name, d.Output)
			bad++
		}
		if retCovers > 0 && retDead == retCovers {
			fmt.Printf("  FAIL %s: no return is reachable under the contract (vacuous)\n", n)
			bad++
		}
		for _, o := range obls {
			want := "unsat"
			if o.IsCover {
				want = "sat"
				if strings.Contains(o.Name, "cover:return") {
					if *verbose {
						fmt.Printf("  cover %-69s %s\n", o.Name, o.Result)
					}
					nok++
					continue
				}
			}
			if o.Result == want || (o.IsCover && o.Result != "unsat") {
				nok++
				if *verbose {
					fmt.Printf("  ok   %-70s %s %dms\n", o.Name, o.Solver, o.Ms)
				}
			} else {
				bad++
				fmt.Printf("  FAIL %-70s %s [%s] trace=%v src=%s\n", o.Name, o.Result, firstLines(o.Output, 1), o.Trace, o.Src)
			}
		}
		fmt.Printf("%-50s %d/%d obligations discharged\n", n, nok, len(obls))
		for _, nt := range notes {
			if *verbose || strings.HasPrefix(nt, "uncontracted") {
				fmt.Println("  note:", nt)
			}
		}
	}
	if bad > 0 {
		os.Exit(1)
	}
}

