package main

import (
	"fmt"
	"go/types"
	"os"
	"path/filepath"
	"sort"
	"strings"

	"golang.org/x/tools/go/packages"
	"golang.org/x/tools/go/ssa"
	"golang.org/x/tools/go/ssa/ssautil"
)

type Verifier struct {
	prog        *ssa.Program
	pkg         *ssa.Package
	spec        *Spec
	repo        string
	funcs       map[string]*ssa.Function // by RelString
	modAliases  map[string][]string
	errGlobals  []string
	lastLeaf    types.Type
	ghostTypes  map[string]types.Type
	ghostArrays map[types.Type]bool
	constInit   map[string]*ssa.Const // global name -> initial constant (never re-assigned)
	storedGlob  map[string]bool
}

func loadVerifier(repo, specDir string) (*Verifier, error) {
	cfg := &packages.Config{Mode: packages.LoadAllSyntax, Dir: repo, BuildFlags: []string{"-tags=verif"},
		Env: append(os.Environ(), "GOFLAGS=-mod=mod", "GOPROXY=off", "GOSUMDB=off", "GOTOOLCHAIN=local")}
	pkgs, err := packages.Load(cfg, ".")
	if err != nil {
		return nil, err
	}
	if len(pkgs) != 1 {
		return nil, fmt.Errorf("expected one package, got %d", len(pkgs))
	}
	if len(pkgs[0].Errors) > 0 {
		return nil, fmt.Errorf("package errors: %v", pkgs[0].Errors)
	}
	prog, spkgs := ssautil.AllPackages(pkgs, ssa.InstantiateGenerics|ssa.GlobalDebug)
	prog.Build()
	v := &Verifier{prog: prog, pkg: spkgs[0], repo: repo, funcs: map[string]*ssa.Function{}, modAliases: map[string][]string{},
		constInit: map[string]*ssa.Const{}, storedGlob: map[string]bool{}, ghostTypes: map[string]types.Type{}, ghostArrays: map[types.Type]bool{}}
	for fn := range ssautil.AllFunctions(prog) {
		if fn.Pkg == v.pkg {
			v.funcs[fn.RelString(v.pkg.Pkg)] = fn
		}
	}
	v.spec = newSpec()
	// contracts on the functions of the repository: comment-only file behind the build tag
	cf := filepath.Join(repo, "contracts_verif.go")
	if _, err := os.Stat(cf); err == nil {
		if err := v.spec.loadFile(cf, "//@"); err != nil {
			return nil, err
		}
	}
	specs, _ := filepath.Glob(filepath.Join(specDir, "*.spec"))
	sort.Strings(specs)
	for _, s := range specs {
		if err := v.spec.loadFile(s, ""); err != nil {
			return nil, err
		}
	}
	v.scanGlobals()
	return v, nil
}

// scanGlobals finds package-level variables that are assigned only by the
// package initialiser with a constant (treated as constants) and error sentinels.
func (v *Verifier) scanGlobals() {
	initFn := v.pkg.Func("init")
	for _, fn := range v.funcs {
		for _, b := range fn.Blocks {
			for _, in := range b.Instrs {
				st, ok := in.(*ssa.Store)
				if !ok {
					continue
				}
				g, ok := st.Addr.(*ssa.Global)
				if !ok {
					continue
				}
				if fn == initFn {
					if c, ok := st.Val.(*ssa.Const); ok {
						if _, dup := v.constInit[g.Name()]; !dup {
							v.constInit[g.Name()] = c
							continue
						}
					}
					// initialised by a call (errors.New, regexp.MustCompile ...): stable after init
					continue
				}
				v.storedGlob[g.Name()] = true
			}
		}
	}
	for name, m := range v.pkg.Members {
		g, ok := m.(*ssa.Global)
		if !ok {
			continue
		}
		if isErrorType(g.Type().(*types.Pointer).Elem()) && !v.storedGlob[name] {
			v.errGlobals = append(v.errGlobals, name)
		}
	}
	sort.Strings(v.errGlobals)
}

// constGlobal returns the value of a global that is never re-assigned after init.
func (v *Verifier) constGlobal(st *State, g *ssa.Global) (Value, bool) {
	if g.Pkg != v.pkg {
		elem := g.Type().(*types.Pointer).Elem()
		if isErrorType(elem) {
			return Term{S: sym("err." + g.Pkg.Pkg.Name() + "." + g.Name()), Sort: SInt}, true
		}
		return nil, false
	}
	if v.storedGlob[g.Name()] {
		return nil, false
	}
	elem := g.Type().(*types.Pointer).Elem()
	if isErrorType(elem) {
		return Term{S: sym("err." + g.Name()), Sort: SInt}, true
	}
	if c, ok := v.constInit[g.Name()]; ok && c.Value != nil {
		r := &funcRun{v: v}
		return r.constVal(c), true
	}
	// initialised once by a call: a stable unknown value
	s, ok := v.leafSort(elem)
	if !ok {
		return nil, false
	}
	name := "glob." + g.Name()
	st.declare(name, string(s))
	return Term{S: sym(name), Sort: s}, true
}

// extErrGlobals: error sentinels of other packages referenced by sod.
var extErrGlobals = []string{"fs.ErrNotExist", "io.EOF", "os.ErrNotExist"}

func (v *Verifier) prelude(theory string) string {
	var sb strings.Builder
	sb.WriteString(preludeBase)
	sb.WriteString(`
(define-fun wfval ((a Val)) Bool (and
   (=> ((_ is VInt) a) (and (<= (- 9223372036854775808) (vint a)) (<= (vint a) 9223372036854775807)))
   (=> ((_ is VUint) a) (and (<= 0 (vuint a)) (<= (vuint a) 18446744073709551615)))))
(declare-fun dyntype (Int) Int)
(declare-fun implements (String Int) Bool)
(declare-fun strpay (String) Int)
(declare-fun f64pay (F64) Int)
(declare-fun slpay (Slice) Int)
(declare-fun i2f (Int) F64)
(declare-fun f2i (F64) Int)
(declare-fun f2u (F64) Int)
(declare-fun errIs (Int Int) Bool)
(declare-fun strof (Val) String)
(declare-fun trg (Int) Bool)
(assert (forall ((x Int)) (! (trg x) :pattern ((trg x)))))
(declare-fun trgk (Int) Bool)
(assert (forall ((x Int)) (! (trgk x) :pattern ((trgk x)))))
(declare-fun trgs (String) Bool)
(assert (forall ((x String)) (! (trgs x) :pattern ((trgs x)))))
`)
	for _, f := range sortedKeys(v.spec.SmtFuns) {
		sf := v.spec.SmtFuns[f]
		fmt.Fprintf(&sb, "(declare-fun %s (%s) %s)\n", sf.Name, strings.Join(sf.Args, " "), sf.Ret)
	}
	_, hasStorage := v.spec.SmtFuns["isStorage"]
	var names []string
	for _, g := range v.errGlobals {
		names = append(names, sym("err."+g))
	}
	for _, g := range extErrGlobals {
		names = append(names, sym("err."+g))
	}
	for _, n := range names {
		fmt.Fprintf(&sb, "(declare-const %s Int)\n(assert (> %s 0))\n(assert (forall ((t Int)) (! (= (errIs %s t) (= t %s)) :pattern ((errIs %s t)))))\n", n, n, n, n, n)
		if hasStorage {
			// the error values of the package are not storage faults
			fmt.Fprintf(&sb, "(assert (not (isStorage %s)))\n", n)
		}
	}
	if hasStorage {
		sb.WriteString("(assert (not (isStorage 0)))\n")
	}
	if len(names) > 1 {
		fmt.Fprintf(&sb, "(assert (distinct %s))\n", strings.Join(names, " "))
	}
	sb.WriteString("(assert (forall ((t Int)) (! (= (errIs 0 t) (= t 0)) :pattern ((errIs 0 t)))))\n")
	// normalisation of a Go value to an index key (table of newIndexedField)
	tag := func(k types.BasicKind) string { return typeTag(types.Typ[k]).S }
	isT := func(k types.BasicKind) string {
		return fmt.Sprintf("(and ((_ is VOther) v) (= (vtag v) %s))", tag(k))
	}
	timeTag := "0"
	if tt, err := types.Eval(v.prog.Fset, v.pkg.Pkg, 0, "timeType"); err == nil && tt.Type != nil {
		// timeType is a reflect.Type variable; the tag of time.Time itself is needed
	}
	for _, imp := range v.pkg.Pkg.Imports() {
		if imp.Path() == "time" {
			if o := imp.Scope().Lookup("Time"); o != nil {
				timeTag = typeTag(o.Type()).S
			}
		}
	}
	fmt.Fprintf(&sb, "(declare-fun unixnano (Int) Int)\n(declare-fun payf64 (Int) F64)\n(assert (forall ((x F64)) (! (= (payf64 (f64pay x)) x) :pattern ((f64pay x)))))\n(declare-fun paystr (Int) String)\n(assert (forall ((x String)) (! (= (paystr (strpay x)) x) :pattern ((strpay x)))))\n")
	fmt.Fprintf(&sb, "(assert (forall ((x Int)) (! (and (<= (- 9223372036854775808) (unixnano x)) (<= (unixnano x) 9223372036854775807)) :pattern ((unixnano x)))))\n")
	uints := []types.BasicKind{types.Uint8, types.Uint16, types.Uint32, types.Uint}
	ints := []types.BasicKind{types.Int8, types.Int16, types.Int32, types.Int}
	var isU, isI []string
	for _, k := range uints {
		isU = append(isU, isT(k))
	}
	for _, k := range ints {
		isI = append(isI, isT(k))
	}
	isF32 := isT(types.Float32)
	isTime := fmt.Sprintf("(and ((_ is VOther) v) (= (vtag v) %s))", timeTag)
	fmt.Fprintf(&sb, "(define-fun normable ((v Val)) Bool (or ((_ is VInt) v) ((_ is VUint) v) ((_ is VFloat) v) ((_ is VStr) v) %s %s %s %s))\n",
		strings.Join(isU, " "), strings.Join(isI, " "), isF32, isTime)
	fmt.Fprintf(&sb, "(define-fun norm ((v Val)) Val (ite (or %s) (VUint (vpay v)) (ite (or %s) (VInt (vpay v)) (ite %s (VFloat (payf64 (vpay v))) (ite %s (VInt (unixnano (vpay v))) v)))))\n",
		strings.Join(isU, " "), strings.Join(isI, " "), isF32, isTime)
	fmt.Fprintf(&sb, "(define-fun supported ((v Val)) Bool (and (normable v) (not (isnan (norm v)))))\n")
	fmt.Fprintf(&sb, "(define-fun castRank ((c String)) Int (ite (= c \"int64\") 1 (ite (= c \"uint64\") 2 (ite (= c \"float64\") 3 (ite (= c \"string\") 4 0)))))\n")
	flags := map[string]bool{}
	for _, w := range strings.Fields(theory) {
		flags[w] = true
	}
	if flags["concrete"] {
		sb.WriteString(preludeOrderConcrete)
	} else {
		sb.WriteString(preludeOrderAbstract)
	}
	if flags["paths"] {
		sb.WriteString(preludePathsConcrete)
	} else {
		sb.WriteString(preludePathsAbstract)
	}
	for _, raw := range v.spec.RawPrelude {
		sb.WriteString(raw + "\n")
	}
	for _, a := range v.spec.Axioms {
		fmt.Fprintf(&sb, "(assert %s) ; axiom %s\n", a.SMT, a.Label)
	}
	return sb.String()
}

// verifyFunction generates the obligations of one function under contract.
func (v *Verifier) verifyFunction(c *Contract) (obls []*Obligation, notes []string, err error) {
	fn := v.funcs[c.Target]
	if fn == nil {
		return nil, nil, fmt.Errorf("contract-target-missing: %s (%s)", c.Target, c.Src)
	}
	r := &funcRun{v: v, fn: fn, c: c, counts: map[string]int{}}
	defer func() {
		if e := recover(); e != nil {
			switch x := e.(type) {
			case unsupportedErr:
				err = fmt.Errorf("unsupported: %s: %s", c.Target, x.msg)
			case specErr:
				err = fmt.Errorf("contract-error: %s: %s", c.Target, x.msg)
			default:
				panic(e)
			}
			obls = r.obls
			notes = r.notes
		}
	}()
	r.run()
	return r.obls, r.notes, nil
}
