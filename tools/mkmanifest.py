#!/usr/bin/env python3
"""Regenerates /verif/MANIFEST.json from the table below (kept in one place so that
claimed / not-applicable lists stay consistent)."""
import json, subprocess

HOOK_COMMITS = subprocess.run(["git", "-C", "/repo", "log", "--format=%h", "--grep=^verif:"],
                              capture_output=True, text=True).stdout.split()

TECH = "contract-based deductive verification: VCs generated from go/ssa of /repo (sodvc), discharged by z3/cvc5"

# property -> (level text, level note)
CLAIMED = {
 "C01": ("Every read and write path under contract (Get, GetByUUID, Exist, Count, All, AssignAll, Iterator, iterator.next, InsertOrUpdate, InsertOrUpdateMany, Delete, DeleteObjects, DeleteAll, Search.Delete and their private helpers) is proved, for all inputs and configurations, to preserve the representation invariant wfDB (index, files, cache and pending writes agree: K1-K6) and to transform the abstract views uuids / value(db,s,u) as the sequential map specification says (stored, others unchanged, not-found iff not indexed, uuid kept or fresh).",
         "Unbounded proof per function over a ghost file system; the history-level statement follows by induction over calls (DESIGN.md section 3). Trusted: SSA->SMT translation and solvers; assumed contracts of os/json/CloneObject/loadSchema (a directory written by a crash-free history loads coherently); uuid.New freshness; 'single-collection' assume in the mutators. InsertOrUpdateBulk (channels) is not under contract."),
 "C02": ("The whole index layer (bisection, equal range, seven extractors, Constrain, regex scan) plus objIndex.search, the full scan searchAll, DB.search, DB.Search, Search.And, Search.Or and Search.Delete are proved against one specification: the result denotes all and only the stored objects whose normalised field value satisfies the operator (sound, complete, duplicate free), And = intersection with the receiver, Or = duplicate-free union, Len = len(fields), Delete removes exactly the matched objects.",
         "Unbounded, for all index contents, probes, operators and both search paths. Trusted/assumed: reflection-based field resolution (fieldByName), regexp semantics (uninterpreted rmatch), Schema.prepare (case canonicalisation of the probe), the strict weak order axioms of klt (proved for the concrete order)."),
 "C03": ("Satisfy is proved to reject iff another entry holds an equal value; satisfyAll is proved to run before any mutation; Insert/Delete/Update are proved to preserve strict uniqueness and the id maps; the id counter never decreases.",
         "Index and objIndex level proofs for all contents; the reopen part rests on loadSchema (assumed) and the exact int64 decoders (fix a125b20)."),
 "C04": ("Every mutating call under contract is proved to leave the schema file committed (committed(db,s)) in synchronous mode; Close and flushAllAndCommit are proved to flush every pending write and commit; deleteObjects reports a failed commit.",
         "The round trip of schema.json as a whole is the assumed contract of loadSchema; the per-value decoders were repaired (a125b20) but are not yet under contract."),
 "C05": ("Storage-error clauses on insertOrUpdate/delete/writeObject over the ghost file system (a failed step leaves either the old state or a state Control reports), temp+rename writes (fix 90ff679).",
         "One open known finding (D19, see known_findings.json). Crash points inside writeReader (trusted) and media-level tearing are outside the model."),
 "C06": ("insertOrUpdate, InsertOrUpdate and InsertOrUpdateMany are proved to leave every view (index, files, cache, pending) unchanged when they return a non-storage error, for all inputs and configurations.",
         "Storage-error half: detectable-or-unchanged clause with one open known finding (D19)."),
 "C07": ("InsertOrUpdateMany: the validation loop is proved not to touch the live views; on a non-storage error nothing changed and n == 0; on success n == len(objects) and every object went through the hooks.",
         "The lemma 'no insertion fails after validation succeeded' (many.no-late-conflict) is assumed, not machine checked. InsertOrUpdateBulk (channel producer) is not under contract."),
 "C08": ("Lock typestate contracts: every function under contract states how it needs the handle lock (H), every shared access happens in a function requiring it, every exported call under contract is proved to be exactly one critical section (ACQ_H == old+1) including DeleteAll and Search.Delete (fix c76677a), the flusher reads settings under the lock.",
         "Interleavings are not enumerated: lockset + single critical section => linearizable is a meta argument (DESIGN.md). Exported functions not under contract: InsertOrUpdateBulk (channels), Open, Schema.Indexed/Asynchrone, NewCustomSchema, the Is* error helpers."),
 "C09": ("Non-re-entrancy and lock order (H > HS > HM > SL) are preconditions of every lock operation and are proved at every call site under contract; nothing blocking (time.Sleep) is called with a lock held; loops and recursion under contract carry decreases clauses.",
         "Termination of user hooks, the OS and regexp is assumed; loops without a decreases clause are listed in the evidence."),
 "C10": ("With async on, an accepted write is proved visible (pending and cached) at return; delete removes the pending entry and the file; Close/flushAllAndCommit post-conditions; the flusher closure is proved to run until the context is cancelled and to flush when due; the flusher is started on every path that enables async.",
         "The real-time half (reaches disk once the timeout elapses) is liveness: not decidable by contracts. objectMap.flush, objectStore.flush, flushAll and flushDB are proved (each pending object is written and removed, or kept when its write failed)."),
 "C11": ("objIndex.control, Schema.control and uuidsFromDir are proved: Control succeeds iff the indexed identifiers and the uuid-shaped file names agree and every field index is ordered and holds exactly the indexed ids.",
         "DB.Control is proved (every loaded collection is checked); Repair is proved only for safety, lock discipline, 'object files are not modified', 'pending writes are flushed first' and 'a successful Repair commits' - that the repaired index agrees with the files is NOT proved; os.ReadDir assumed."),
 "C12": ("The DB-level contracts mention only abstract views and are proved with the configuration (cache, compression, async, extension, lower-case names, indexed or not) as free symbolic inputs: one specification for the indexed and the full-scan search including error classes, Exist sees pending writes.",
         "Same trusted base as C01/C02."),
 "C13": ("Extractors return windows of the descending index in index order; Constrain rebuilds a sorted index; objIndex.search/DB.search results are non-increasing for indexed fields; collect/one/Limit/Reverse index arithmetic.",
         "assignIndex (reflection) is not under contract."),
 "C14": ("Everything stored in or returned from the cache and the pending store is proved to be a CloneObject result distinct from the caller's object (store discipline).",
         "CloneObject (cloneValue: reflection) itself is an assumed contract: deep-copy correctness over all shapes is not decided; a bounded stand-in checks it on 243 shapes of the real code (labelled bounded in the evidence). Flush/FlushAndCommit are proved to write the accepted (pending) value, not the caller's object."),
 "C15": ("Hook typestate: on the single and batch insertion paths the object is proved to go raw -> Transform -> schema transform -> Validate before anything is indexed or stored, and a validation error is returned as such.",
         "User hook bodies are arbitrary within their contract; InsertOrUpdateBulk not under contract."),
 "C17": ("The compatibility predicates (FieldsCompatibleWith, CompatibleWith, Schema.isCompatibleWith, Schema.update) are proved to accept iff extension and field descriptors agree; Create is proved to write no file (no flush, no schema save, no settings change) unless the given schema is compatible with the loaded one, to keep every stored value and the index when it is, to flush pending writes before asynchronous writes are switched off and to drop the cache when caching is switched off (the representation invariant is preserved); Schema.control is proved to report a changed structure; every read path is proved read-only on the file system.",
         "FieldDescriptors (reflection) is an assumed contract with a bounded stand-in; the first load of a collection (loadSchema) is an assumed contract, so 'refused on every operation after reopen' rests on it plus Schema.control; Create's new-collection path is proved for schemas without a caller-supplied index (assume default-index)."),
 "C19": ("Zero-annotation panic-freedom obligations (index, slice bounds, nil dereference, type assertion, nil map store, division, explicit panic, integer overflow) on every instruction of every function under contract, plus error-class clauses for search arguments (unknown field/operator, mistyped value, invalid pattern), uuidExt/uuidsFromDir and control.",
         "Covers functions under contract, including the schema decoders (with encoding/json left uncontracted, i.e. arbitrary decoded content) and exact decoding of 64-bit integers; reflection-bodied functions are assumed contracts exercised by bounded stand-ins (fieldByName: every path of a struct type to depth 3 plus ill-formed paths)."),
 "C20": ("Every search result is proved to be a fresh array (never a view of the index); every index mutator up to the exported calls is proved to write element memory only in (old) index arrays or fresh arrays (elemsFramed); And/Or leave the receiver untouched; a deleted object's id resolves to no object (the empty identifier is never indexed).",
         "History-level statement by the meta lemma fresh + framed => immutable across later calls."),
}

NOT_APPLICABLE = {
 "C16": "the canonicalisation itself is done by reflection-bodied code (Constraints.transform / recursiveTransform) and strings.ToUpper/ToLower, which no contract within reach can express; what contracts do decide (the probe is prepared by the same function before either search path; the schema transform precedes Validate, index and store) is proved under C02/C12/C15 with Schema.prepare/transform as assumed contracts",
 "C18": "the naming functions are proved against the layout specification (under C01), but the primary half - a directory written by the pinned release opens identically - is a cross-build comparison over a corpus, which is not a contract on the current code",
}

def main():
    checks = []
    for pid in sorted(CLAIMED):
        text, note = CLAIMED[pid]
        checks.append({
            "property_id": pid,
            "quick_cmd": f"./check.sh {pid} quick",
            "thorough_cmd": f"./check.sh {pid} thorough",
            "evidence_file": f"/verif/evidence/{pid}.json",
            "replay_cmd_template": "cat {path}",
            "engine": "sodvc",
            "level_claimed": {"category": "proof", "text": text, "design_ref": f"DESIGN.md section 3 ({pid}), section 1"},
            "level_note": note,
            "technique": TECH,
        })
    m = {
        "version": 1,
        "setup_cmd": "./setup.sh",
        "hooks": {
            "guard": "verif",
            "enable": "go/packages loads /repo with -tags=verif; the only guarded file is /repo/contracts_verif.go (comments only)",
            "baseline_off_cmd": "cd /repo && GOFLAGS=-mod=mod GOPROXY=off GOSUMDB=off go test -json -vet=off -count=1 -timeout 25m ./...",
            "source_commits": HOOK_COMMITS,
            "add_only": True,
        },
        "engines": [{"name": "sodvc", "path": "/verif/sodvc", "serves_properties": sorted(CLAIMED),
                     "kind_free_text": "verification-condition generator over go/ssa with contracts as structured comments; obligations discharged by z3 5.1.0, cvc5 1.0.3, z3 4.8.12"}],
        "checks": checks,
        "notes": "Known findings and fixed defects: /verif/known_findings.json. Seeded changes used to test the checks: /verif/seeded/. Design and assumption ledger: /verif/DESIGN.md.",
        "not_applicable": [{"property_id": p, "reason": r} for p, r in sorted(NOT_APPLICABLE.items()) if p not in CLAIMED],
    }
    json.dump(m, open("/verif/MANIFEST.json", "w"), indent=1)
    print("claimed:", sorted(CLAIMED), "n/a:", len(m["not_applicable"]))

main()
