#!/usr/bin/env python3
"""Regenerates /verif/MANIFEST.json from the table below (kept in one place so that
claimed / not-applicable lists stay consistent)."""
import json, subprocess

HOOK_COMMITS = subprocess.run(["git", "-C", "/repo", "log", "--format=%h", "--grep=^verif:"],
                              capture_output=True, text=True).stdout.split()

TECH = "contract-based deductive verification: VCs generated from go/ssa of /repo (sodvc), discharged by z3/cvc5"

# property -> (level text, level note)
CLAIMED = {
 "C02": ("Every function of the index search path (bisection, equal range, the seven range extractors, comparison, Constrain, search value normalisation) carries a functional contract taken from the property statement (result = exactly the entries satisfying the operator, positionally); each contract is proved for all index contents, probes and lengths by discharging the verification conditions generated from the SSA of the current tree.",
         "Unbounded proof of the index layer against spec predicates; trusted: SSA construction, SSA->SMT translation, solvers, the strict-weak-order axioms (justified by lemma obligations over the concrete order), regexp semantics (abstract), reflection-based field resolution (assumed contract). DB-level composition (Search.And/Or, full scan) is covered by DESIGN.md meta lemma where not yet under contract."),
 "C03": ("Satisfy is proved to reject iff another entry holds an equal value; insert/Delete/Update are proved to preserve the well-formedness of a field index including strictness of unique indexes and the id map; proofs hold for all contents.",
         "Index-level proof; objIndex/DB composition partly assumed (see evidence assumptions)."),
 "C13": ("The range extractors are proved to return windows of the descending index in index order; Constrain is proved to rebuild a sorted index; so result order is the index order for all contents.",
         "Iterator/collect arithmetic and reflect-based AssignIndex: see evidence (assumed or bounded)."),
 "C19": ("Zero-annotation panic-freedom obligations (index in range, slice bounds, nil dereference, type assertion, nil map store, division, explicit panic) are generated for every instruction of every function under contract and discharged for all inputs satisfying the stated preconditions; termination measures on loops and recursion.",
         "Covers the functions under contract only; preconditions are established by callers' obligations; reflection-bodied functions are outside the verifier's reach."),
 "C20": ("Every range extractor is proved to return either a fresh array or a view of the index, objIndex-level copy makes results fresh; index mutators are proved to write only their own backing array or fresh arrays (modifies-at frames).",
         "Aliasing is first-class in the memory model (backing array + offset); history-level statement by the meta lemma fresh + framed => immutable."),
}

NOT_APPLICABLE = {
 "C01": "contracts on the DB orchestration layer (ghost file system / cache / pending views) not completed yet",
 "C04": "round-trip lemmas and commit clauses not completed yet",
 "C05": "crash-invariant obligations over the ghost file system not completed yet",
 "C06": "DB-level no-trace contracts not completed yet",
 "C07": "batch loop contracts not completed yet",
 "C08": "lock typestate / lockset contracts not completed yet",
 "C09": "lock order / non-re-entrancy contracts not completed yet",
 "C10": "async-write safety contracts not completed yet; the timing half is liveness and cannot be a contract",
 "C11": "Control/Repair contracts not completed yet",
 "C12": "configuration-free form of the DB-level contracts not completed yet",
 "C14": "clone discipline contracts not completed yet; cloneValue itself is reflection (bounded only)",
 "C15": "hook typestate contracts not completed yet",
 "C16": "transform contracts not completed yet",
 "C17": "schema guard contracts not completed yet",
 "C18": "layout contracts not completed yet; cross-release corpus half is not a contract",
}

def main():
    checks = []
    for pid in sorted(CLAIMED):
        text, note = CLAIMED[pid]
        checks.append({
            "property_id": pid,
            "quick_cmd": f"./check.sh {pid} quick",
            "thorough_cmd": f"./check.sh {pid} thorough",
            "evidence_file": f"/verif/evidence/{pid}.json",
            "replay_cmd_template": "cat {path}",
            "engine": "sodvc",
            "level_claimed": {"category": "proof", "text": text, "design_ref": f"DESIGN.md section 3 ({pid}), section 1"},
            "level_note": note,
            "technique": TECH,
        })
    m = {
        "version": 1,
        "setup_cmd": "./setup.sh",
        "hooks": {
            "guard": "verif",
            "enable": "go/packages loads /repo with -tags=verif; the only guarded file is /repo/contracts_verif.go (comments only)",
            "baseline_off_cmd": "cd /repo && GOFLAGS=-mod=mod GOPROXY=off GOSUMDB=off go test -json -vet=off -count=1 -timeout 25m ./...",
            "source_commits": HOOK_COMMITS,
            "add_only": True,
        },
        "engines": [{"name": "sodvc", "path": "/verif/sodvc", "serves_properties": sorted(CLAIMED),
                     "kind_free_text": "verification-condition generator over go/ssa with contracts as structured comments; obligations discharged by z3 5.1.0, cvc5 1.0.3, z3 4.8.12"}],
        "checks": checks,
        "notes": "Known findings and fixed defects: /verif/known_findings.json. Seeded changes used to test the checks: /verif/seeded/. Design and assumption ledger: /verif/DESIGN.md.",
        "not_applicable": [{"property_id": p, "reason": r} for p, r in sorted(NOT_APPLICABLE.items()) if p not in CLAIMED],
    }
    json.dump(m, open("/verif/MANIFEST.json", "w"), indent=1)
    print("claimed:", sorted(CLAIMED), "n/a:", len(m["not_applicable"]))

main()
