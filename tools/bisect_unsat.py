#!/usr/bin/env python3
"""bisect_unsat.py file.smt2 : finds the first path command after which the context (without the goal) is unsat."""
import sys, subprocess, tempfile, os
src=open(sys.argv[1]).read()
head, rest = src.split("; ---- path ----\n",1)
path, goal = rest.split("; ---- goal:",1)
cmds=path.split("\n")
def check(n):
    body=head+"\n".join(cmds[:n])+"\n(check-sat)\n"
    f=tempfile.NamedTemporaryFile('w',suffix='.smt2',delete=False); f.write(body); f.close()
    try:
        out=subprocess.run(['z3-new','-T:20',f.name],capture_output=True,text=True).stdout.strip().split("\n")[0]
    finally:
        os.unlink(f.name)
    return out
print("full:",check(len(cmds)))
lo,hi=0,len(cmds)
if check(hi)!="unsat":
    sys.exit(0)
while lo<hi:
    mid=(lo+hi)//2
    r=check(mid)
    if r=="unsat": hi=mid
    else: lo=mid+1
print("first unsat after command",lo)
for c in cmds[max(0,lo-3):lo]:
    print(c[:1500]); print("--")
