#!/bin/sh
# usage: trymutant.sh <patch.diff> <property>...
# Applies the patch to a scratch copy of /repo (outside /repo and /verif), runs the given
# checks on it, prints their verdict lines, removes the scratch copy.
patch="$1"; shift
tmp=$(mktemp -d /tmp/sodmut.XXXXXX)
cp -r /repo "$tmp/repo" && rm -rf "$tmp/repo/.git" "$tmp/repo/data"
if ! (cd "$tmp/repo" && patch -p1 -s < "$patch"); then echo "patch does not apply"; rm -rf "$tmp"; exit 2; fi
export GOFLAGS=-mod=mod GOPROXY=off GOSUMDB=off GOTOOLCHAIN=local
for p in "$@"; do
  /verif/bin/sodvc check -prop "$p" -tier "${TIER:-quick}" -repo "$tmp/repo" -verif /verif -out "$tmp/out" | grep -E "VIOLATION|KNOWN|obligations discharged" | cut -c1-260
done
rm -rf "$tmp"
