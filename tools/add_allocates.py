#!/usr/bin/env python3
"""add_allocates.py <sodvc fn output> <contracts file>: adds the components reported by frame-undeclared
obligations to an allocates clause of the function's contract."""
import re, sys, collections
out, cf = sys.argv[1], sys.argv[2]
need = collections.defaultdict(set)
for l in open(out):
    m = re.search(r'FAIL (\S+)/frame-undeclared:(\S+?)(~\d+)?\s', l)
    if m:
        need[m.group(1)].add(m.group(2))
src = open(cf).read().split('\n')
res = []
i = 0
done = set()
while i < len(src):
    l = src[i]
    res.append(l)
    m = re.match(r'//@ func (\S+)\s*$', l)
    if m and m.group(1) in need and m.group(1) not in done:
        fn = m.group(1)
        # copy the block, then add the clause at its end
        j = i + 1
        while j < len(src) and src[j].startswith('//@ ') and not src[j].startswith('//@ func '):
            res.append(src[j]); j += 1
        res.append('//@ allocates ' + ', '.join(sorted(need[fn])))
        done.add(fn)
        i = j
        continue
    i += 1
open(cf, 'w').write('\n'.join(res))
print('updated', len(done), 'functions; missing:', set(need) - done)
