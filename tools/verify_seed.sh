#!/bin/sh
# usage: verify_seed.sh <id> <srcdir with patch.diff + zz_seed_test.go>
# Confirms in scratch copies (outside /repo and /verif) that the change compiles, passes the
# existing suite, and that the demonstration fails with the change and passes without it.
id="$1"; src="$2"
export GOFLAGS=-mod=mod GOPROXY=off GOSUMDB=off GOTOOLCHAIN=local
tmp=$(mktemp -d /tmp/seedchk.XXXXXX)
res="$tmp/result.txt"
cp -r /repo "$tmp/with" && rm -rf "$tmp/with/.git" "$tmp/with/data"
cp -r "$tmp/with" "$tmp/without"
( cd "$tmp/with" && patch -p1 -s < "$src/patch.diff" ) || { echo "$id: PATCH DOES NOT APPLY"; rm -rf "$tmp"; exit 2; }
( cd "$tmp/with" && go build ./... ) && echo "build_with=ok" > "$res" || echo "build_with=FAIL" > "$res"
( cd "$tmp/with" && go test -vet=off -count=1 -timeout 20m . >suite.log 2>&1 ) && echo "suite_with=ok" >> "$res" || echo "suite_with=FAIL" >> "$res"
cp "$src/zz_seed_test.go" "$tmp/with/"; cp "$src/zz_seed_test.go" "$tmp/without/"
( cd "$tmp/with" && go test -vet=off -count=1 -timeout 5m -run 'TestSeedDemo$' . >demo.log 2>&1 ) && echo "demo_with=pass(UNEXPECTED)" >> "$res" || echo "demo_with=fail(expected)" >> "$res"
( cd "$tmp/without" && go test -vet=off -count=1 -timeout 5m -run 'TestSeedDemo$' . >demo.log 2>&1 ) && echo "demo_without=pass(expected)" >> "$res" || echo "demo_without=FAIL(UNEXPECTED)" >> "$res"
echo "$id: $(tr '\n' ' ' < "$res")"
mkdir -p /tmp/seedres && cp "$res" "/tmp/seedres/$id.txt"
rm -rf "$tmp"
