#!/bin/sh
# Must-fail corpus: every listed change to /repo (applied to a scratch copy, never to /repo) must make the
# quick check of the listed property report a VIOLATION. Run after every change of the engine or of the
# contracts. usage: selftest/run.sh [filter]
cd "$(dirname "$0")/.." || exit 2
[ -x bin/sodvc ] || ./setup.sh >/dev/null || exit 2
fail=0
grep -v '^#' selftest/corpus.tsv | while IFS="$(printf '\t')" read -r patch props; do
  [ -n "$patch" ] || continue
  case "$patch" in *"$1"*) ;; *) continue;; esac
  for p in $props; do
    out=$(./tools/trymutant.sh "$(pwd)/$patch" "$p" 2>&1)
    if echo "$out" | grep -q "^VIOLATION property=$p"; then
      echo "caught   $p  $patch  $(echo "$out" | grep -m1 '^VIOLATION' | sed 's/.*obligation=//' | cut -c1-110)"
    else
      echo "MISSED   $p  $patch"; echo "$out" | tail -3
      echo missed >> /tmp/selftest_missed.$$
    fi
  done
done
if [ -f /tmp/selftest_missed.$$ ]; then rm -f /tmp/selftest_missed.$$; exit 1; fi
exit 0
