#!/bin/sh
# Builds the verifier from sources on disk only (offline).
set -e
cd "$(dirname "$0")/sodvc"
export GOFLAGS=-mod=mod GOPROXY=off GOSUMDB=off GOTOOLCHAIN=local
mkdir -p ../bin
go build -o ../bin/sodvc .
echo "built /verif/bin/sodvc"
