package sod

// Bounded stand-ins (NOT proofs) for the assumed contracts of the case canonicalisation code
// (Constraints.Transform used by Schema.prepare, Schema.transform / recursiveTransform used on
// insertion): C16.

import (
	"strings"
	"testing"
	"unicode"
	"unicode/utf8"
)

type btInner struct {
	Up  string `sod:"upper"`
	Low string `sod:"lower"`
	Raw string
	In  *btInner
}

type btObj struct {
	Item
	Up    string `sod:"upper,index"`
	Low   string `sod:"lower,unique"`
	Raw   string
	N     int `sod:"upper"`
	In    btInner
	Pin   *btInner
	PUp   *string `sod:"upper"`
}

func TestBoundedCaseRunes(t *testing.T) {
	// exhaustive over all valid runes: the case maps are idempotent (what canonv-idempotent assumes)
	n := 0
	for r := rune(0); r <= unicode.MaxRune; r++ {
		if !utf8.ValidRune(r) {
			continue
		}
		s := string(r)
		if u := strings.ToUpper(s); strings.ToUpper(u) != u {
			t.Fatalf("ToUpper not idempotent on %U", r)
		}
		if l := strings.ToLower(s); strings.ToLower(l) != l {
			t.Fatalf("ToLower not idempotent on %U", r)
		}
		n++
	}
	t.Logf("BOUNDED function=strings.ToUpper/ToLower cases=%d bound=%q detail=%q", n, "every valid rune (exhaustive)", "idempotence of both case maps")
}

func TestBoundedTransform(t *testing.T) {
	samples := []string{"", "a", "A", "aBc", "ÀéÎ", "straße", "ǅ", "İi", "ﬁ", "123", "mIxEd Case ünï", "ΑΣσς"}
	cases := 0
	for _, in := range samples {
		// prepare side: Constraints.Transform through a pointer to an interface holding the probe
		for _, c := range []Constraints{{Upper: true}, {Lower: true}, {}} {
			var v interface{} = in
			c.Transform(&v)
			want := in
			if c.Upper {
				want = strings.ToUpper(in)
			}
			if c.Lower {
				want = strings.ToLower(in)
			}
			if v != want {
				t.Errorf("Transform(%q) with %+v = %q, want %q", in, c, v, want)
			}
			again := v
			c.Transform(&again)
			if again != v {
				t.Errorf("Transform not idempotent on %q", in)
			}
			// values which are not strings are left alone
			var num interface{} = 42
			c.Transform(&num)
			if num != 42 {
				t.Errorf("Transform changed a number")
			}
			cases += 3
		}
		// insertion side: every constrained string of the object, at any depth and through pointers,
		// is canonicalised by the schema's transformers; unconstrained ones and nil pointers are not touched
		p := in
		o := &btObj{Up: in, Low: in, Raw: in, N: 5, In: btInner{Up: in, Low: in, Raw: in, In: &btInner{Up: in, Low: in, Raw: in}}, Pin: &btInner{Up: in, Low: in, Raw: in}, PUp: &p}
		s := DefaultSchema
		if err := s.initialize(nil, o); err != nil {
			t.Fatal(err)
		}
		s.transform(o)
		up, low := strings.ToUpper(in), strings.ToLower(in)
		// (tags on pointer-to-scalar fields are not taken into account by the library: *PUp is left alone)
		got := []string{o.Up, o.Low, o.Raw, o.In.Up, o.In.Low, o.In.Raw, o.Pin.Up, o.Pin.Low, o.Pin.Raw, *o.PUp}
		want := []string{up, low, in, up, low, in, up, low, in, in}
		for i := range got {
			if got[i] != want[i] {
				t.Errorf("schema transform of %q: field #%d = %q, want %q", in, i, got[i], want[i])
			}
		}
		if o.N != 5 {
			t.Errorf("a number changed")
		}
		z := &btObj{Up: in} // nil pointers on the way
		s.transform(z)
		if z.Pin != nil || z.PUp != nil || z.Up != up {
			t.Errorf("transform through nil pointers: %+v", z)
		}
		// applying it twice changes nothing
		before := *o
		s.transform(o)
		if o.Up != before.Up || o.Low != before.Low || o.In.Up != before.In.Up || o.Pin.Low != before.Pin.Low {
			t.Errorf("schema transform not idempotent on %q", in)
		}
		cases += len(got) + 4
	}
	t.Logf("BOUNDED function=Constraints.Transform,Schema.transform,Schema.prepare cases=%d bound=%q detail=%q", cases, "12 sample strings (ASCII, accents, ligatures, title case, Greek sigma, dotted I) x {upper, lower, none} x {top level, nested, behind pointer, nil pointer}", "")
}
