package sod

// Bounded stand-in (NOT a proof) for the assumed contract of CloneObject used by the C14/C01/C10
// proofs: "out is a different object with the same JSON-visible content, and no mutable memory of out
// is reachable from o (and vice versa)". Injected into /repo with `go test -overlay` by sodvc; the
// shapes below are enumerated exhaustively up to the stated bound.

import (
	"encoding/json"
	"fmt"
	"reflect"
	"testing"
	"time"
)

type bLeaf struct {
	N int
	S string
	T []string
	M map[string]int
	P *int
}

type bEmbedded struct {
	E  string
	ES []int
}

type bShape struct {
	Item
	bEmbedded
	I    int
	U    uint64
	F    float64
	B    bool
	Str  string
	Tm   time.Time
	Ints []int
	Strs []string
	Lv   []bLeaf            // slice of by-value structs holding references
	Lp   []*bLeaf           // slice of pointers
	Arr  [2]bLeaf           // array of structs
	Mi   map[string]int
	Ms   map[string][]int   // map of slices
	Ml   map[string]bLeaf   // map of structs
	Mp   map[string]*bLeaf  // map of pointers
	Pl   *bLeaf
	Ppl  **bLeaf
	Nest struct {
		A []int
		L bLeaf
	}
	SS [][]int
}

func bInt(i int) *int { return &i }

func bLeafN(k int) bLeaf {
	switch k % 3 {
	case 0:
		return bLeaf{} // zero: nil slice, nil map, nil pointer
	case 1:
		return bLeaf{N: k, S: "s", T: []string{}, M: map[string]int{}, P: bInt(0)} // empty containers
	}
	return bLeaf{N: k, S: fmt.Sprint("leaf", k), T: []string{"a", "b"}, M: map[string]int{"x": k}, P: bInt(k)}
}

// bShapes enumerates the shape grammar: every reference-holding field in each of the states
// nil / empty / non-empty, independently per field family (3^k combinations bounded by `limit`).
func bShapes(limit int) []*bShape {
	var out []*bShape
	for code := 0; code < limit; code++ {
		c := code
		next := func() int { r := c % 3; c /= 3; return r }
		o := &bShape{I: code, U: uint64(code) << 40, F: float64(code) / 3, B: code%2 == 0, Str: fmt.Sprint("v", code), Tm: time.Unix(int64(code), int64(code)).UTC()}
		o.Initialize(fmt.Sprintf("00000000-0000-0000-0000-%012d", code))
		o.E, o.ES = "e", []int{1, 2}
		switch next() {
		case 1:
			o.Ints, o.Strs = []int{}, []string{}
		case 2:
			o.Ints, o.Strs = []int{1, 2, 3}, []string{"x", "y"}
		}
		switch next() {
		case 1:
			o.Lv, o.Lp = []bLeaf{}, []*bLeaf{}
		case 2:
			l := bLeafN(2)
			o.Lv, o.Lp = []bLeaf{bLeafN(0), bLeafN(1), bLeafN(2)}, []*bLeaf{nil, &l}
		}
		switch next() {
		case 1:
			o.Mi, o.Ms, o.Ml, o.Mp = map[string]int{}, map[string][]int{}, map[string]bLeaf{}, map[string]*bLeaf{}
		case 2:
			l := bLeafN(5)
			o.Mi, o.Ms, o.Ml, o.Mp = map[string]int{"a": 1}, map[string][]int{"a": {1, 2}, "n": nil}, map[string]bLeaf{"l": bLeafN(2)}, map[string]*bLeaf{"p": &l, "nil": nil}
		}
		switch next() {
		case 1:
			l := bLeafN(1)
			o.Pl = &l
		case 2:
			l := bLeafN(2)
			pl := &l
			o.Pl, o.Ppl = &l, &pl
		}
		switch next() {
		case 1:
			o.SS = [][]int{}
		case 2:
			o.SS = [][]int{{1}, nil, {2, 3}}
		}
		o.Arr = [2]bLeaf{bLeafN(code), bLeafN(code + 1)}
		o.Nest.A, o.Nest.L = []int{code}, bLeafN(code+2)
		out = append(out, o)
	}
	return out
}

// bMutate changes every mutable location reachable from v (through pointers, slices, maps, arrays,
// structs). It returns the number of locations changed.
func bMutate(v reflect.Value, seen map[uintptr]bool) int {
	n := 0
	switch v.Kind() {
	case reflect.Ptr:
		if !v.IsNil() {
			if seen[v.Pointer()] {
				return 0
			}
			seen[v.Pointer()] = true
			n += bMutate(v.Elem(), seen)
		}
	case reflect.Interface:
		if !v.IsNil() {
			n += bMutate(v.Elem(), seen)
		}
	case reflect.Struct:
		if v.Type() == reflect.TypeOf(time.Time{}) {
			if v.CanSet() {
				v.Set(reflect.ValueOf(v.Interface().(time.Time).Add(time.Hour)))
				n++
			}
			return n
		}
		for i := 0; i < v.NumField(); i++ {
			if v.Type().Field(i).PkgPath != "" && !v.Type().Field(i).Anonymous {
				continue
			}
			if v.Type().Field(i).Name == "Item" {
				continue // identifier: not part of the mutable payload
			}
			n += bMutate(v.Field(i), seen)
		}
	case reflect.Slice, reflect.Array:
		for i := 0; i < v.Len(); i++ {
			n += bMutate(v.Index(i), seen)
		}
	case reflect.Map:
		for _, k := range v.MapKeys() {
			e := v.MapIndex(k)
			// map values are not addressable: mutate a copy and store it back, then follow references
			c := reflect.New(e.Type()).Elem()
			c.Set(e)
			n += bMutate(c, seen)
			v.SetMapIndex(k, c)
		}
		if v.Len() > 0 {
			// also a structural change: one more key
			k := reflect.New(v.Type().Key()).Elem()
			if k.Kind() == reflect.String {
				k.SetString("zz-added")
				v.SetMapIndex(k, reflect.Zero(v.Type().Elem()))
				n++
			}
		}
	case reflect.Int, reflect.Int8, reflect.Int16, reflect.Int32, reflect.Int64:
		if v.CanSet() {
			v.SetInt(v.Int() + 1)
			n++
		}
	case reflect.Uint, reflect.Uint8, reflect.Uint16, reflect.Uint32, reflect.Uint64:
		if v.CanSet() {
			v.SetUint(v.Uint() + 1)
			n++
		}
	case reflect.Float32, reflect.Float64:
		if v.CanSet() {
			v.SetFloat(v.Float() + 1)
			n++
		}
	case reflect.Bool:
		if v.CanSet() {
			v.SetBool(!v.Bool())
			n++
		}
	case reflect.String:
		if v.CanSet() {
			v.SetString(v.String() + "!")
			n++
		}
	}
	return n
}

func bJSON(t *testing.T, o interface{}) string {
	b, err := json.Marshal(o)
	if err != nil {
		t.Fatal(err)
	}
	return string(b)
}

func TestBoundedCloneObject(t *testing.T) {
	limit := 243 // 3^5: every combination of the five reference-field families
	cases, mutated := 0, 0
	for _, o := range bShapes(limit) {
		before := bJSON(t, o)
		c := CloneObject(o)
		if c == Object(o) {
			t.Fatalf("clone is the same object (shape %d)", o.I)
		}
		if c.UUID() != o.UUID() {
			t.Fatalf("uuid not kept (shape %d)", o.I)
		}
		if reflect.TypeOf(c) != reflect.TypeOf(o) {
			t.Fatalf("dynamic type changed (shape %d)", o.I)
		}
		if got := bJSON(t, c); got != before {
			t.Fatalf("content differs (shape %d)\n have %s\n want %s", o.I, got, before)
		}
		// mutate everything reachable from the clone: the original must not change
		m := bMutate(reflect.ValueOf(c), map[uintptr]bool{})
		if after := bJSON(t, o); after != before {
			t.Fatalf("mutating the clone changed the original (shape %d): aliasing\n before %s\n after  %s", o.I, before, after)
		}
		// and the other way round, on a second clone
		c2 := CloneObject(o)
		want2 := bJSON(t, c2)
		m += bMutate(reflect.ValueOf(o), map[uintptr]bool{})
		if got2 := bJSON(t, c2); got2 != want2 {
			t.Fatalf("mutating the original changed its clone (shape %d): aliasing", o.I)
		}
		// two clones of one object do not share memory either
		c3, c4 := CloneObject(c2), CloneObject(c2)
		want4 := bJSON(t, c4)
		bMutate(reflect.ValueOf(c3), map[uintptr]bool{})
		if bJSON(t, c4) != want4 {
			t.Fatalf("two clones share memory (shape %d)", o.I)
		}
		cases++
		mutated += m
	}
	t.Logf("BOUNDED function=CloneObject cases=%d bound=%q detail=%q", cases, "shape grammar: 5 reference-field families x {nil, empty, non-empty} = 243 objects of one struct type (scalars, time, embedded, nested struct, slices/maps/arrays/pointers of scalars, structs and pointers)", fmt.Sprintf("%d locations mutated", mutated))
}
