package sod

// Bounded stand-ins (NOT proofs) for the assumed contracts of the reflection-bodied helpers
// fieldByName, FieldDescriptors, stype/typeof, Assign/AssignOne, newIterator/object.

import (
	"fmt"
	"reflect"
	"strings"
	"testing"
	"time"
)

type bfInner struct {
	A  int
	S  string
	T  time.Time
	PI *int
	In *bfInner
}

type bfEmb struct{ EmbField uint16 }

type bfObj struct {
	Item
	bfEmb
	I8   int8 `sod:"index"`
	I64  int64
	U8   uint8
	U64  uint64 `sod:"unique"`
	F32  float32
	F64  float64
	Str  string `sod:"index,upper"`
	Tm   time.Time
	B    bool
	Sl   []int
	In   bfInner
	Pin  *bfInner
	PStr *string
	unexp int
}

// all field paths of bfObj down to depth 3 through In / Pin, with the Go type expected at the path
func bfPaths() map[string]reflect.Type {
	out := map[string]reflect.Type{}
	var rec func(prefix string, t reflect.Type, depth int)
	rec = func(prefix string, t reflect.Type, depth int) {
		for i := 0; i < t.NumField(); i++ {
			f := t.Field(i)
			if !f.IsExported() && !f.Anonymous {
				continue
			}
			if f.Name == "Item" {
				continue
			}
			p := f.Name
			if prefix != "" {
				p = prefix + "." + f.Name
			}
			ft := f.Type
			if f.Anonymous && ft.Kind() == reflect.Struct {
				// promoted fields are reachable by their own name
				for j := 0; j < ft.NumField(); j++ {
					pp := ft.Field(j).Name
					if prefix != "" {
						pp = prefix + "." + pp
					}
					out[pp] = ft.Field(j).Type
				}
				continue
			}
			for ft.Kind() == reflect.Ptr {
				ft = ft.Elem()
			}
			out[p] = ft
			if ft.Kind() == reflect.Struct && ft != reflect.TypeOf(time.Time{}) && depth < 3 {
				rec(p, ft, depth+1)
			}
		}
	}
	rec("", reflect.TypeOf(bfObj{}), 0)
	return out
}

func TestBoundedFieldByName(t *testing.T) {
	n := 7
	str := "p"
	full := &bfObj{I8: 1, I64: 2, U8: 3, U64: 4, F32: 5, F64: 6, Str: "s", Tm: time.Unix(9, 9), B: true, Sl: []int{1},
		In: bfInner{A: 1, S: "x", PI: &n, In: &bfInner{A: 2, In: &bfInner{A: 3}}}, Pin: &bfInner{A: 4, In: &bfInner{A: 5}}, PStr: &str}
	full.EmbField = 8
	zero := &bfObj{} // every pointer nil
	paths := bfPaths()
	cases := 0
	for _, o := range []*bfObj{full, zero} {
		for p, want := range paths {
			v, ok := fieldByName(o, fieldPath(p))
			if !ok {
				t.Errorf("path %q of the type not resolved (object %p)", p, o)
				continue
			}
			got := reflect.TypeOf(v)
			for got != nil && got.Kind() == reflect.Ptr {
				got = got.Elem()
			}
			if got != want {
				t.Errorf("path %q: value of type %v, declared type %v", p, reflect.TypeOf(v), want)
			}
			// the kind of index key does not depend on the object (nil pointers give the zero value)
			if f1, e1 := newIndexedField(v, 0); e1 == nil {
				z, _ := fieldByName(zero, fieldPath(p))
				if f2, e2 := newIndexedField(z, 0); e2 != nil || f1.valueTypeString() != f2.valueTypeString() {
					t.Errorf("path %q: index key kind depends on the object: %v vs %v (%v)", p, f1.valueTypeString(), f2, e2)
				}
			}
			cases++
		}
		// paths that do not exist, go below a scalar, or are empty: not resolved, no panic
		for _, p := range []string{"Nope", "In.Nope", "I64.X", "Str.Y.Z", "Pin.In.In.In.Nope", "", ".", "In.", "unexp", "Sl.X", "PStr.X", "Tm.wall"} {
			func() {
				defer func() {
					if r := recover(); r != nil {
						t.Errorf("path %q: panic %v", p, r)
					}
				}()
				if _, ok := fieldByName(o, fieldPath(p)); ok && p != "" && !strings.HasSuffix(p, ".") {
					if _, declared := paths[p]; !declared && p != "unexp" && p != "Tm.wall" {
						t.Errorf("path %q resolved although the type has no such field", p)
					}
				}
				cases++
			}()
		}
	}
	// values: what fieldByName returns is the field's value
	if v, _ := fieldByName(full, fieldPath("In.In.In.A")); v != 3 {
		t.Errorf("In.In.In.A = %v", v)
	}
	if v, _ := fieldByName(full, fieldPath("Pin.In.A")); v != 5 {
		t.Errorf("Pin.In.A = %v", v)
	}
	if v, _ := fieldByName(full, fieldPath("EmbField")); v != uint16(8) {
		t.Errorf("EmbField = %v", v)
	}
	t.Logf("BOUNDED function=fieldByName cases=%d bound=%q detail=%q", cases, "every field path of one struct type down to depth 3 (scalars of each kind, time, nested struct, pointer to struct, pointer to scalar, embedded) on a fully populated and an all-nil object, plus 12 ill-formed paths", "")
}

func TestBoundedFieldDescriptors(t *testing.T) {
	d := FieldDescriptors(&bfObj{})
	paths := bfPaths()
	cases := 0
	for p, fd := range d {
		if fd.Path != p {
			t.Errorf("descriptor of %q has path %q", p, fd.Path)
		}
		if _, ok := fieldByName(&bfObj{}, fieldPath(p)); !ok {
			t.Errorf("described path %q is not a field path", p)
		}
		cases++
	}
	for p, ty := range paths {
		// every scalar leaf path is described (structs are described through their leaves)
		if ty.Kind() == reflect.Struct && ty != reflect.TypeOf(time.Time{}) {
			continue
		}
		if strings.Count(p, ".") >= 2 {
			continue // recursion through self-referencing pointers is cut by the library
		}
		if p == "EmbField" {
			continue // fields promoted from an unexported embedded struct are not described (not indexable)
		}
		if _, ok := d[p]; !ok && ty.Kind() != reflect.Slice {
			t.Errorf("field path %q (%v) has no descriptor", p, ty)
		}
		cases++
	}
	if !d["I8"].Constraints.Index || !d["U64"].Constraints.Unique || !d["Str"].Constraints.Upper || d["I64"].Constraints.Index {
		t.Errorf("constraints of the tags not reflected: %v", d)
	}
	// same type, same descriptors (what the schema guard compares)
	if err := d.CompatibleWith(FieldDescriptors(&bfObj{I64: 5})); err != nil {
		t.Errorf("descriptors depend on the value: %v", err)
	}
	t.Logf("BOUNDED function=FieldDescriptors cases=%d bound=%q detail=%q", cases, "one struct type with every supported scalar kind, time, nested / pointer / embedded structs", "")
}

type bfOther struct {
	Item
	A int
}

func TestBoundedStypeAssign(t *testing.T) {
	cases := 0
	// stype / typeof: a pointer and its struct name the same collection; distinct types differ
	if stype(&bfObj{}) != stype(bfObj{}) || stype(&bfObj{}) == stype(&bfOther{}) || stype(&bfObj{}) == "" {
		t.Errorf("stype: %q %q %q", stype(&bfObj{}), stype(bfObj{}), stype(&bfOther{}))
	}
	cases += 3
	// newIterator(...).object(): a fresh zero object of the same dynamic type each time
	it := newIterator(nil, &bfObj{I64: 3}, []string{"a", "b"})
	o1, o2 := it.object(), it.object()
	if reflect.TypeOf(o1) != reflect.TypeOf(&bfObj{}) || o1 == o2 || o1.UUID() != "" || o1.(*bfObj).I64 != 0 {
		t.Errorf("iterator.object: %T %v", o1, o1)
	}
	cases += 2
	// AssignOne / Assign: the target receives the objects, in order
	var one *bfObj
	src := &bfObj{I64: 42}
	AssignOne(src, &one)
	if one == nil || one.I64 != 42 {
		t.Errorf("AssignOne: %v", one)
	}
	for n := 0; n < 4; n++ {
		var many []*bfObj
		objs := []Object{}
		for i := 0; i < n; i++ {
			objs = append(objs, &bfObj{I64: int64(i)})
		}
		if err := Assign(objs, &many); err != nil || len(many) != n {
			t.Errorf("Assign %d: %v %d", n, err, len(many))
		}
		for i := range many {
			if many[i].I64 != int64(i) {
				t.Errorf("Assign order")
			}
		}
		cases++
	}
	t.Logf("BOUNDED function=stype,typeof,newIterator,object,Assign,AssignOne cases=%d bound=%q detail=%q", cases, "two struct types; result lists of 0..3 objects", fmt.Sprint())
}

type bniObj struct {
	Item
	Plain  int
	Idx    int    `sod:"index"`
	Uniq   string `sod:"unique"`
	Both   int64  `sod:"index,unique"`
	Nested struct {
		In uint8 `sod:"index"`
	}
}

// newIndex / makeTmpIndex (assumed contracts: "one field index per descriptor that is indexed or unique,
// with the constraints of the descriptor, empty"), also for descriptors set by hand on a custom schema.
func TestBoundedNewIndex(t *testing.T) {
	cases := 0
	check := func(name string, fields FieldDescMap) {
		idx := newIndex(fields)
		for p, fd := range fields {
			fi, has := idx.Fields[p]
			want := fd.Constraints.Index || fd.Constraints.Unique
			if has != want {
				t.Errorf("%s: field %q (constraints %+v): field index present=%v, want %v", name, p, fd.Constraints, has, want)
			}
			if has {
				if fi.Constraints.Unique != fd.Constraints.Unique || fi.Name != p || len(fi.Index) != 0 || fi.objectIds == nil {
					t.Errorf("%s: field index of %q does not carry the descriptor: %+v", name, p, fi)
				}
			}
			cases++
		}
		if len(idx.uuids) != 0 || len(idx.ObjectIds) != 0 || idx.uuids == nil || idx.ObjectIds == nil {
			t.Errorf("%s: new index not empty", name)
		}
	}
	check("tags", FieldDescriptors(&bniObj{}))
	// every combination of the two flags set by hand on every field (custom schema)
	for mask := 0; mask < 4; mask++ {
		fields := FieldDescriptors(&bniObj{})
		for p := range fields {
			if err := fields.Constraint(p, Constraints{Index: mask&1 != 0, Unique: mask&2 != 0}); err != nil {
				t.Fatal(err)
			}
		}
		check(fmt.Sprintf("custom mask %d", mask), fields)
	}
	// the schema built from them enforces what the descriptors say (temporary index of batches included)
	s := NewCustomSchema(func() FieldDescMap {
		f := FieldDescriptors(&bniObj{})
		f.Constraint("Plain", Constraints{Unique: true})
		return f
	}(), ".json")
	if _, ok := s.ObjectIndex.Fields["Plain"]; !ok {
		t.Errorf("NewCustomSchema: a field declared unique (only) has no index")
	}
	if tmp := s.makeTmpIndex(); len(tmp.Fields) != len(s.ObjectIndex.Fields) {
		t.Errorf("makeTmpIndex: %d field indexes, schema has %d", len(tmp.Fields), len(s.ObjectIndex.Fields))
	}
	cases += 2
	t.Logf("BOUNDED function=newIndex,makeTmpIndex,NewCustomSchema cases=%d bound=%q detail=%q", cases, "one struct type; descriptors from tags and every combination of {index, unique} set by hand on every field", "")
}
