package sod

// Bounded stand-in (NOT a proof) of the assumed contract of writeReader (trusted "writes the reader's
// content to a temporary file and renames it over the target: the target holds its old or its new
// content; the temporary name is never read") and of its clauses fs.write-ok / fs.write-fail.
// The reader handed to writeReader observes the directory at every Read call — the points between the
// file-system mutations of the function, i.e. the crash points of C05 inside it — and may fail part-way.

import (
	"bytes"
	"compress/gzip"
	"errors"
	"fmt"
	"io"
	"os"
	"path/filepath"
	"strings"
	"testing"
)

type bioReader struct {
	data    []byte
	off     int
	step    int
	failAt  int // fail once off >= failAt (negative: never)
	observe func(off int)
}

var errBioInjected = errors.New("injected read fault")

func (r *bioReader) Read(p []byte) (int, error) {
	r.observe(r.off)
	if r.failAt >= 0 && r.off >= r.failAt {
		return 0, errBioInjected
	}
	if r.off >= len(r.data) {
		return 0, io.EOF
	}
	n := r.step
	if n > len(p) {
		n = len(p)
	}
	if n > len(r.data)-r.off {
		n = len(r.data) - r.off
	}
	if r.failAt >= 0 && r.off+n > r.failAt {
		n = r.failAt - r.off
	}
	copy(p, r.data[r.off:r.off+n])
	r.off += n
	return n, nil
}

// content of the file as a reader of this library sees it (gzip by suffix), or absent
func bioState(path string) (exists bool, content []byte, err error) {
	b, e := os.ReadFile(path)
	if e != nil {
		if os.IsNotExist(e) {
			return false, nil, nil
		}
		return false, nil, e
	}
	if strings.HasSuffix(path, compressedExtension) {
		zr, e := gzip.NewReader(bytes.NewReader(b))
		if e != nil {
			return true, nil, fmt.Errorf("unreadable gzip: %w", e)
		}
		c, e := io.ReadAll(zr)
		if e != nil {
			return true, nil, fmt.Errorf("unreadable gzip: %w", e)
		}
		return true, c, nil
	}
	return true, b, nil
}

func TestBoundedWriteReader(t *testing.T) {
	cases := 0
	sizes := []int{0, 1, 37, 5000, 200000}
	for _, compress := range []bool{false, true} {
		for _, existing := range []bool{false, true} {
			for _, size := range sizes {
				fails := []int{-1, 0}
				if size > 1 {
					fails = append(fails, 1, size/2, size-1)
				}
				for _, failAt := range fails {
					for _, name := range []string{"0f8fad5b-d9cb-469f-a165-70867728950e.json", "schema.json"} {
						cases++
						id := fmt.Sprintf("compress=%v existing=%v size=%d failAt=%d name=%s", compress, existing, size, failAt, name)
						dir := t.TempDir()
						arg := filepath.Join(dir, name)
						target := arg
						if compress {
							target += compressedExtension
						}
						old := []byte(`{"old":"content of the target before the call"}`)
						if existing {
							// written by the function itself, so that the stored form is the library's own
							if err := writeReader(arg, bytes.NewReader(old), 0600, compress); err != nil {
								t.Fatalf("%s: preparing the target: %v", id, err)
							}
						}
						data := bytes.Repeat([]byte("x"), size)
						if size > 0 {
							data[0] = '{'
						}
						r := &bioReader{data: data, step: 4096, failAt: failAt}
						observations := 0
						r.observe = func(off int) {
							observations++
							ex, c, err := bioState(target)
							if err != nil {
								t.Errorf("%s: after %d bytes the target is unreadable: %v", id, off, err)
								return
							}
							if ex != existing || (existing && !bytes.Equal(c, old)) {
								t.Errorf("%s: after %d bytes of the write the target is neither absent/old nor new: exists=%v len=%d (assumed: old or new content, never partial)", id, off, ex, len(c))
							}
							// nothing but the target and the temporary name may exist, and no name a reader takes for an object
							ents, _ := os.ReadDir(dir)
							for _, e := range ents {
								if e.Name() == filepath.Base(target) {
									continue
								}
								if pre, _ := uuidExt(e.Name()); uuidRegexp.MatchString(pre) || e.Name() == "schema.json" {
									t.Errorf("%s: after %d bytes the directory holds %q, which a reader takes for an object or a schema", id, off, e.Name())
								}
							}
						}
						err := writeReader(arg, r, 0600, compress)
						if observations == 0 {
							t.Errorf("%s: the reader was never read", id)
						}
						ex, c, serr := bioState(target)
						if serr != nil {
							t.Errorf("%s: after the call the target is unreadable: %v", id, serr)
							continue
						}
						wantFail := failAt >= 0 && failAt <= size
						if wantFail != (err != nil) {
							t.Errorf("%s: err=%v, expected failure=%v", id, err, wantFail)
						}
						if err == nil {
							// fs.write-ok
							if !ex || !bytes.Equal(c, data) {
								t.Errorf("%s: success but the target does not hold the new content (exists=%v len=%d)", id, ex, len(c))
							}
						} else {
							// fs.write-fail: unchanged
							if !errors.Is(err, errBioInjected) {
								t.Errorf("%s: the injected fault is not reported: %v", id, err)
							}
							if ex != existing || (existing && !bytes.Equal(c, old)) {
								t.Errorf("%s: failed write changed the target (exists=%v len=%d)", id, ex, len(c))
							}
						}
						// whole directory: only the target (if any) remains
						ents, _ := os.ReadDir(dir)
						for _, e := range ents {
							if e.Name() != filepath.Base(target) {
								t.Errorf("%s: left-over entry %q after the call (err=%v)", id, e.Name(), err)
							}
						}
					}
				}
			}
		}
	}
	// rename fault: the target is a non-empty directory, the rename must fail and leave it alone
	{
		dir := t.TempDir()
		target := filepath.Join(dir, "schema.json")
		os.MkdirAll(filepath.Join(target, "sub"), 0700)
		err := writeReader(target, bytes.NewReader([]byte("{}")), 0600, false)
		cases++
		if err == nil {
			t.Errorf("rename over a non-empty directory: no error")
		}
		if st, e := os.Stat(filepath.Join(target, "sub")); e != nil || !st.IsDir() {
			t.Errorf("rename fault: the target was changed")
		}
		ents, _ := os.ReadDir(dir)
		if len(ents) != 1 {
			t.Errorf("rename fault: left-over temporary file (%d entries)", len(ents))
		}
	}
	t.Logf("bounded: %d cases of writeReader (compress x existing x 5 sizes x fault positions x 2 names, observed at every Read)", cases)
}
