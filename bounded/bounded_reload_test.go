package sod

// Bounded stand-in (NOT a proof) of the assumed contract of (*DB).loadSchema ("a directory written by a
// crash-free history of this code loads into a coherent schema: the C04 round trip of the schema file").
// Histories of inserts / updates / deletes over every indexable scalar kind with boundary values, in every
// storage configuration; after Close and reopen the index must be, entry for entry and Go type for Go type,
// the index that was closed, Control must pass, the id counter must not hand out a used id, and the unique
// constraint must still refuse what it refused.

import (
	"errors"
	"fmt"
	"math"
	"sort"
	"strings"
	"testing"
	"time"
)

type brlObj struct {
	Item
	I8  int8    `sod:"index"`
	I16 int16   `sod:"index"`
	I32 int32   `sod:"index"`
	I64 int64   `sod:"index"`
	I   int     `sod:"index"`
	U8  uint8   `sod:"index"`
	U16 uint16  `sod:"index"`
	U32 uint32  `sod:"index"`
	U64 uint64  `sod:"unique"`
	U   uint    `sod:"index"`
	F32 float32 `sod:"index"`
	F64 float64 `sod:"index"`
	S   string  `sod:"unique"`
	T   time.Time `sod:"index"`
	In  struct {
		N int64 `sod:"index"`
	}
	Plain string
}

func brlDump(in *objIndex) string {
	var sb strings.Builder
	fmt.Fprintf(&sb, "ids=%d uuids=%d\n", len(in.ObjectIds), len(in.uuids))
	ids := make([]uint64, 0)
	for id := range in.ObjectIds {
		ids = append(ids, id)
	}
	sort.Slice(ids, func(a, b int) bool { return ids[a] < ids[b] })
	for _, id := range ids {
		fmt.Fprintf(&sb, "id %d -> %s (back: %d)\n", id, in.ObjectIds[id], in.uuids[in.ObjectIds[id]])
	}
	names := make([]string, 0)
	for n := range in.Fields {
		names = append(names, n)
	}
	sort.Strings(names)
	for _, n := range names {
		fi := in.Fields[n]
		fmt.Fprintf(&sb, "field %s name=%s cast=%s constraints=%+v len=%d idmap=%d\n", n, fi.Name, fi.Cast, fi.Constraints, len(fi.Index), len(fi.objectIds))
		for x, e := range fi.Index {
			same := fi.objectIds[e.ObjectId] == e
			fmt.Fprintf(&sb, "  %d: %T %v id=%d mapped=%v\n", x, e.Value, e.Value, e.ObjectId, same)
		}
	}
	return sb.String()
}

func brlObjects() []*brlObj {
	i64 := []int64{math.MinInt64, math.MinInt64 + 1, -(1 << 53) - 1, -1, 0, 1, 1 << 53, (1 << 53) + 1, math.MaxInt64 - 1, math.MaxInt64, 1700000000123456789}
	u64 := []uint64{0, 1, 1 << 53, (1 << 53) + 1, math.MaxInt64, math.MaxInt64 + 1, math.MaxUint64 - 1, math.MaxUint64, 1<<63 + 12345, 18446744073709551557, 42}
	strs := []string{"a", "A", "é", " ", "\"quoted\"", "\\", "日本語", "a\nb", "\u0000", "zz", "{}"}
	out := make([]*brlObj, 0)
	for k := 0; k < len(i64); k++ {
		o := &brlObj{
			I8: int8(i64[k]), I16: int16(i64[k] >> 3), I32: int32(i64[k] >> 7), I64: i64[k], I: int(i64[k]),
			U8: uint8(u64[k]), U16: uint16(u64[k] >> 3), U32: uint32(u64[k] >> 5), U64: u64[k], U: uint(u64[k]),
			F32: float32(k) / 3, F64: float64(i64[k]) / 7, S: strs[k],
			T:     time.Unix(0, i64[k]%(1<<62)).UTC(),
			Plain: "p",
		}
		if k%2 == 0 {
			o.F64 = []float64{0, math.SmallestNonzeroFloat64, -math.MaxFloat64, math.MaxFloat64, 1e21, -1e-7}[k/2%6]
		}
		o.In.N = -i64[(k+3)%len(i64)] / 2
		out = append(out, o)
	}
	return out
}

func TestBoundedSchemaReload(t *testing.T) {
	cases := 0
	for cfg := 0; cfg < 8; cfg++ {
		id := fmt.Sprintf("cache=%v compress=%v async=%v", cfg&1 != 0, cfg&2 != 0, cfg&4 != 0)
		dir := t.TempDir()
		s := DefaultSchema
		s.Cache = cfg&1 != 0
		s.Compress = cfg&2 != 0
		if cfg&4 != 0 {
			s.Asynchrone(1000, time.Hour)
		}
		db := Open(dir)
		if err := db.Create(&brlObj{}, s); err != nil {
			t.Fatalf("%s: create: %v", id, err)
		}
		objs := brlObjects()
		for _, o := range objs {
			if err := db.InsertOrUpdate(o); err != nil {
				t.Fatalf("%s: insert: %v", id, err)
			}
		}
		// updates that move entries, deletions that leave holes in the id space
		objs[2].I64, objs[2].U64, objs[2].S = math.MaxInt64-7, math.MaxUint64-7, "moved"
		if err := db.InsertOrUpdate(objs[2]); err != nil {
			t.Fatalf("%s: update: %v", id, err)
		}
		for _, k := range []int{0, 5, len(objs) - 1} {
			if err := db.Delete(objs[k]); err != nil {
				t.Fatalf("%s: delete: %v", id, err)
			}
		}
		late := &brlObj{I64: 5, U64: 77, S: "late"}
		if err := db.InsertOrUpdate(late); err != nil {
			t.Fatalf("%s: late insert: %v", id, err)
		}
		sc, err := db.Schema(&brlObj{})
		if err != nil {
			t.Fatalf("%s: schema: %v", id, err)
		}
		before := brlDump(sc.ObjectIndex)
		counter := sc.ObjectIndex.i
		if err := db.Close(); err != nil {
			t.Fatalf("%s: close: %v", id, err)
		}

		db2 := Open(dir)
		sc2, err := db2.Schema(&brlObj{})
		if err != nil {
			t.Errorf("%s: reopen: %v", id, err)
			continue
		}
		after := brlDump(sc2.ObjectIndex)
		cases++
		if before != after {
			t.Errorf("%s: the reloaded index differs from the closed one\n--- closed\n%s--- reloaded\n%s", id, before, after)
		}
		if err := db2.Control(); err != nil {
			t.Errorf("%s: Control after reopen: %v", id, err)
		}
		// the id counter never hands out an id in use or used before (ids are not reused)
		for used := range sc2.ObjectIndex.ObjectIds {
			if used >= sc2.ObjectIndex.i {
				t.Errorf("%s: reloaded id counter %d is not above the id %d in use", id, sc2.ObjectIndex.i, used)
			}
		}
		_ = counter
		// equality search finds every surviving object by each of its 64-bit values; unique still enforced
		for k, o := range objs {
			deleted := k == 0 || k == 5 || k == len(objs)-1
			for _, q := range []struct {
				f string
				v interface{}
			}{{"I64", o.I64}, {"U64", o.U64}, {"S", o.S}, {"T", o.T}, {"In.N", o.In.N}, {"F64", o.F64}} {
				cases++
				res, err := db2.Search(&brlObj{}, q.f, "=", q.v).Collect()
				if err != nil {
					t.Errorf("%s: search %s = %v after reopen: %v", id, q.f, q.v, err)
					continue
				}
				found := false
				for _, r := range res {
					if r.UUID() == o.UUID() {
						found = true
					}
				}
				if found == deleted {
					t.Errorf("%s: after reopen search %s = %v finds object %d: %v (deleted: %v)", id, q.f, q.v, k, found, deleted)
				}
			}
			if !deleted {
				dup := &brlObj{U64: o.U64, S: fmt.Sprintf("fresh-%d", k)}
				if err := db2.InsertOrUpdate(dup); !errors.Is(err, ErrConstraintUnique) {
					t.Errorf("%s: after reopen a duplicate of unique U64=%d is accepted (err=%v)", id, o.U64, err)
				}
			}
		}
		db2.Close()
	}
	t.Logf("bounded: %d reload comparisons / probes (8 configurations x 11 boundary objects, update, deletes, late insert)", cases)
}
